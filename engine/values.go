package engine

import (
	"fmt"
	"go/types"
	"strings"

	"golang.org/x/tools/go/ssa"
)

// Value is an interpreter value:
//
//	bool | int64 | string | float64 | *Term            scalars (Term = symbolic Int/Bool)
//	Struct | Array                                      aggregates (by value; copied on load/store)
//	*Value                                              pointer to a cell
//	[]Value                                             slice (shares backing array like Go)
//	*Map | Iface | *Closure | *MakeFuncObj | Tuple
//	RValue | *RType | *HostObj                          reflect / host model objects
type Value interface{}

type Struct []Value
type Array []Value
type Tuple []Value

type Iface struct {
	t types.Type
	v Value
}

type Closure struct {
	fn  *ssa.Function
	env []Value
}

// Map is an insertion-ordered association list with concrete keys.
type Map struct {
	idx  map[interface{}]int
	keys []Value
	vals []Value
	live []bool
	n    int
	id   int
}

type Iter struct {
	m     *Map
	order []int
	i     int
	// string iteration
	str  string
	spos int
	isS  bool
}

// targetPanic is a Go panic raised by the interpreted program.
type targetPanic struct{ v Value }

// abortPath ends the current path as inconclusive (engine limitation) or
// infeasible (why == infeasible).
type abortPath struct{ why string }

// divergence is raised when the call-depth / step budget is exceeded.
type divergence struct{ why string }

const infeasible = "infeasible"

type strKey struct{ s string }
type ifaceKey struct {
	t string
	v interface{}
}

func basicOf(t types.Type) *types.Basic {
	b, _ := t.Underlying().(*types.Basic)
	return b
}

func rangeOf(t types.Type) intRange {
	b := basicOf(t)
	if b == nil {
		return intRange{64, true}
	}
	switch b.Kind() {
	case types.Int8:
		return intRange{8, true}
	case types.Int16:
		return intRange{16, true}
	case types.Int32, types.UntypedRune:
		return intRange{32, true}
	case types.Int64, types.Int, types.UntypedInt:
		return intRange{64, true}
	case types.Uint8:
		return intRange{8, false}
	case types.Uint16:
		return intRange{16, false}
	case types.Uint32:
		return intRange{32, false}
	case types.Uint64, types.Uint, types.Uintptr:
		return intRange{64, false}
	}
	return intRange{64, true}
}

// normInt truncates a concrete integer to the range r (two's complement).
func normInt(v int64, r intRange) int64 {
	if r.bits == 64 {
		return v
	}
	mask := int64(1)<<r.bits - 1
	v &= mask
	if r.signed && v&(int64(1)<<(r.bits-1)) != 0 {
		v -= int64(1) << r.bits
	}
	return v
}

func typeKey(t types.Type) string { return types.TypeString(t, nil) }

func zero(t types.Type) Value {
	if isRValueType(t) {
		return RValue{}
	}
	switch t := t.Underlying().(type) {
	case *types.Basic:
		switch {
		case t.Info()&types.IsBoolean != 0:
			return false
		case t.Info()&types.IsInteger != 0:
			return int64(0)
		case t.Info()&types.IsString != 0:
			return ""
		case t.Info()&types.IsFloat != 0:
			return float64(0)
		case t.Kind() == types.UntypedNil:
			return nil
		case t.Kind() == types.UnsafePointer:
			return (*Value)(nil)
		}
		panic(abortPath{"zero: unsupported basic " + t.String()})
	case *types.Struct:
		s := make(Struct, t.NumFields())
		for i := range s {
			s[i] = zero(t.Field(i).Type())
		}
		return s
	case *types.Array:
		a := make(Array, t.Len())
		for i := range a {
			a[i] = zero(t.Elem())
		}
		return a
	case *types.Pointer:
		return (*Value)(nil)
	case *types.Slice:
		return []Value(nil)
	case *types.Map:
		return (*Map)(nil)
	case *types.Interface:
		return Iface{}
	case *types.Signature:
		return (*Closure)(nil)
	case *types.Chan:
		return (*HostObj)(nil)
	case *types.Tuple:
		tu := make(Tuple, t.Len())
		for i := range tu {
			tu[i] = zero(t.At(i).Type())
		}
		return tu
	}
	panic(abortPath{fmt.Sprintf("zero: unsupported %T %s", t, t)})
}

func copyVal(v Value) Value {
	switch v := v.(type) {
	case Struct:
		c := make(Struct, len(v))
		for i := range v {
			c[i] = copyVal(v[i])
		}
		return c
	case Array:
		c := make(Array, len(v))
		for i := range v {
			c[i] = copyVal(v[i])
		}
		return c
	}
	return v
}

// storeRaw writes v into *p keeping the identity of the cells of an aggregate.
func storeRaw(p *Value, v Value) {
	switch old := (*p).(type) {
	case Struct:
		nv := v.(Struct)
		for i := range old {
			storeRaw(&old[i], nv[i])
		}
		return
	case Array:
		nv := v.(Array)
		for i := range old {
			storeRaw(&old[i], nv[i])
		}
		return
	}
	*p = copyVal(v)
}

func hashKey(v Value) interface{} {
	switch v := v.(type) {
	case nil:
		return nil
	case int64, bool, float64, *Value, *RType, *HostObj, *Map, *Closure, *MakeFuncObj:
		return v
	case string:
		return strKey{v}
	case Iface:
		if v.t == nil {
			return nil
		}
		return ifaceKey{typeKey(v.t), hashKey(v.v)}
	case Struct:
		var sb strings.Builder
		sb.WriteString("S{")
		for _, f := range v {
			fmt.Fprintf(&sb, "%T:%v;", hashKey(f), hashKey(f))
		}
		sb.WriteString("}")
		return strKey{sb.String()}
	case Array:
		var sb strings.Builder
		sb.WriteString("A{")
		for _, f := range v {
			fmt.Fprintf(&sb, "%T:%v;", hashKey(f), hashKey(f))
		}
		sb.WriteString("}")
		return strKey{sb.String()}
	case *Term:
		panic(abortPath{"symbolic map key"})
	}
	panic(abortPath{fmt.Sprintf("hashKey: unsupported %T", v)})
}

func newMap() *Map { return &Map{idx: map[interface{}]int{}} }

func (m *Map) get(k Value) (Value, bool) {
	if m == nil {
		return nil, false
	}
	i, ok := m.idx[hashKey(k)]
	if !ok {
		return nil, false
	}
	return m.vals[i], true
}

func (m *Map) set(k, v Value) {
	h := hashKey(k)
	if i, ok := m.idx[h]; ok {
		m.vals[i] = v
		return
	}
	m.idx[h] = len(m.keys)
	m.keys = append(m.keys, k)
	m.vals = append(m.vals, v)
	m.live = append(m.live, true)
	m.n++
}

func (m *Map) del(k Value) {
	if m == nil {
		return
	}
	h := hashKey(k)
	if i, ok := m.idx[h]; ok {
		m.live[i] = false
		delete(m.idx, h)
		m.n--
	}
}

func asTerm(v Value) *Term {
	switch v := v.(type) {
	case *Term:
		return v
	case int64:
		return tInt(v)
	case bool:
		return tBool(v)
	}
	panic(abortPath{fmt.Sprintf("asTerm: %T", v)})
}

func isSym(v Value) bool { _, ok := v.(*Term); return ok }

func simp(t *Term) Value {
	switch t.op {
	case "bool":
		return t.bval
	case "int":
		return t.ival
	}
	return t
}

// equalVals implements Go's == on concrete values. Symbolic scalars nested in
// aggregates are handled by eqTerm.
func equalVals(a, b Value) bool {
	switch a := a.(type) {
	case nil:
		switch b := b.(type) {
		case nil:
			return true
		case Iface:
			return b.t == nil
		case *Value:
			return b == nil
		case *Map:
			return b == nil
		case []Value:
			return b == nil
		case *Closure:
			return b == nil
		}
		return false
	case Iface:
		b, ok := b.(Iface)
		if !ok {
			return a.t == nil && equalVals(nil, b)
		}
		if a.t == nil || b.t == nil {
			return a.t == nil && b.t == nil
		}
		return types.Identical(a.t, b.t) && equalVals(a.v, b.v)
	case Struct:
		b := b.(Struct)
		for i := range a {
			if !equalVals(a[i], b[i]) {
				return false
			}
		}
		return true
	case Array:
		b := b.(Array)
		for i := range a {
			if !equalVals(a[i], b[i]) {
				return false
			}
		}
		return true
	case *Value:
		bp, ok := b.(*Value)
		if !ok {
			return a == nil && b == nil
		}
		return a == bp
	case *Map:
		bp, ok := b.(*Map)
		if !ok {
			return a == nil && b == nil
		}
		return a == bp
	case []Value:
		if b == nil {
			return a == nil
		}
		bs, ok := b.([]Value)
		if ok && a == nil && bs == nil {
			return true
		}
		if ok && (a == nil) != (bs == nil) {
			return false
		}
		panic(targetPanic{Iface{types.Typ[types.String], "runtime error: comparing uncomparable type (slice)"}})
	case *Closure:
		bp, ok := b.(*Closure)
		if !ok {
			return a == nil && b == nil
		}
		if a == nil || bp == nil {
			return a == nil && bp == nil
		}
		panic(targetPanic{Iface{types.Typ[types.String], "runtime error: comparing uncomparable type (func)"}})
	case *MakeFuncObj:
		if bc, ok := b.(*Closure); ok && bc == nil {
			return false
		}
		if b == nil {
			return false
		}
		panic(targetPanic{Iface{types.Typ[types.String], "runtime error: comparing uncomparable type (func)"}})
	case *Term:
		panic(abortPath{"equalVals on symbolic value"})
	}
	if _, ok := b.(*Term); ok {
		panic(abortPath{"equalVals on symbolic value"})
	}
	return a == b
}

// eqTerm builds the (possibly symbolic) equality of two values; returns a
// concrete bool where nothing symbolic is involved.
func eqTerm(a, b Value) Value {
	if !containsSym(a) && !containsSym(b) {
		return equalVals(a, b)
	}
	switch a := a.(type) {
	case *Term, int64, bool:
		switch b.(type) {
		case *Term, int64, bool:
			return simp(tEq(asTerm(a), asTerm(b)))
		}
		return false
	case Iface:
		bi, ok := b.(Iface)
		if !ok {
			return false
		}
		if a.t == nil || bi.t == nil {
			return a.t == nil && bi.t == nil
		}
		if !types.Identical(a.t, bi.t) {
			return false
		}
		return eqTerm(a.v, bi.v)
	case Struct:
		bs := b.(Struct)
		acc := tBool(true)
		for i := range a {
			acc = tAnd(acc, asTerm(eqTerm(a[i], bs[i])))
		}
		return simp(acc)
	case Array:
		bs := b.(Array)
		acc := tBool(true)
		for i := range a {
			acc = tAnd(acc, asTerm(eqTerm(a[i], bs[i])))
		}
		return simp(acc)
	}
	return equalVals(a, b)
}

func containsSym(v Value) bool {
	switch v := v.(type) {
	case *Term:
		return true
	case Struct:
		for _, f := range v {
			if containsSym(f) {
				return true
			}
		}
	case Array:
		for _, f := range v {
			if containsSym(f) {
				return true
			}
		}
	case Iface:
		return containsSym(v.v)
	}
	return false
}

func mkStringIface(s string) Iface { return Iface{types.Typ[types.String], s} }

func runtimePanic(msg string) targetPanic {
	return targetPanic{Iface{types.Typ[types.String], "runtime error: " + msg}}
}
