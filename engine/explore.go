package engine

import (
	"fmt"
	"hash/fnv"
	"math/rand"
	"sort"
	"strings"
)

// Schedule policies (must match the constants in the harness zz_vn.go files).
const (
	schedInsertion = 0
	schedFlip      = 1
	schedRot       = 2
	schedPerm      = 3
	schedSeeded    = 4
)

type schedPolicy struct {
	kind int
	arg  int
}

// Violation is one failed assertion (or uncaught panic / divergence) with the
// solver's model for the named symbolic inputs.
type Violation struct {
	Label    string            `json:"label"`
	Finding  string            `json:"finding,omitempty"` // classifier verdict computed by the harness ("" = unclassified)
	Note     string            `json:"note,omitempty"`
	Model    map[string]string `json:"model"`
	Kind     string            `json:"kind"` // assert | panic | divergence
	Schedule []string          `json:"schedule,omitempty"`
	Trace    []int32           `json:"-"`
}

// PathResult is what one explored path produced.
type PathResult struct {
	Outcome    string // ok | infeasible | abort:<why> | panic | divergence
	Asserts    int
	Discharged int
	Violations []Violation
	Covers     []string
	Note       string
	Decisions  int
	Solved     int // decisions that needed the solver
	Siblings   [][]int32
	Steps      int64
	Digest     []string
	Model      map[string]string // model of the path condition (for cross-validation), if requested
}

type digestTerm struct {
	idx   int
	label string
	t     *Term
}

// Explorer drives one path: it follows a prescribed decision prefix and asks
// the solver at each undetermined branch beyond it.
type Explorer struct {
	s      *Solver
	prefix []int32
	trace  []int32
	res    *PathResult

	names  []string
	isBool map[string]bool
	orig   map[string]string
	domain map[string]int64
	seen   map[string]*Term

	defaultSched schedPolicy
	siteSched    map[string]schedPolicy
	siteBit      map[string]int
	siteInst     map[string]int
	schedSeed    int64
	schedEpoch   int
	usedSched    map[string]bool

	digestTerms []digestTerm
	pcSat       bool // the asserted path condition is known to be satisfiable

	seed       int64
	wantModel  bool
	solverSlow int
}

func NewExplorer(s *Solver, seed int64) *Explorer {
	return &Explorer{s: s, seed: seed}
}

func (e *Explorer) startPath(prefix []int32) {
	e.prefix = prefix
	e.trace = e.trace[:0]
	e.res = &PathResult{}
	e.names = nil
	e.isBool = map[string]bool{}
	e.orig = map[string]string{}
	e.domain = map[string]int64{}
	e.seen = map[string]*Term{}
	e.defaultSched = schedPolicy{}
	e.siteSched = map[string]schedPolicy{}
	e.siteBit = map[string]int{}
	e.siteInst = map[string]int{}
	e.usedSched = map[string]bool{}
	e.schedSeed = 0
	e.schedEpoch = 0
	e.digestTerms = nil
	e.pcSat = false
	e.s.Reset()
}

func (e *Explorer) pushSibling(d int32) {
	alt := make([]int32, len(e.trace)+1)
	copy(alt, e.trace)
	alt[len(e.trace)] = d
	e.res.Siblings = append(e.res.Siblings, alt)
}

func (e *Explorer) check(t *Term) string {
	r := e.s.CheckWith(t)
	if r != "sat" && r != "unsat" {
		panic(abortPath{"solver: " + r})
	}
	return r
}

// decide resolves a symbolic branch condition.
func (e *Explorer) decide(c *Term) bool {
	if c.op == "bool" {
		return c.bval
	}
	i := len(e.trace)
	var d bool
	if i < len(e.prefix) {
		d = e.prefix[i] != 0
	} else {
		e.res.Solved++
		t := e.check(c) == "sat"
		var f bool
		if !t && e.pcSat {
			f = true // PC is known satisfiable and PC ∧ c is not: PC ∧ ¬c is
		} else {
			f = e.check(tNot(c)) == "sat"
		}
		if t || f {
			e.pcSat = true
		}
		switch {
		case t && f:
			d = true
			e.pushSibling(0)
		case t:
			d = true
		case f:
			d = false
		default:
			panic(abortPath{infeasible})
		}
	}
	if d {
		e.trace = append(e.trace, 1)
		e.s.Assert(c)
	} else {
		e.trace = append(e.trace, 0)
		e.s.Assert(tNot(c))
	}
	e.res.Decisions++
	return d
}

// choose is a free k-way decision that does not involve the solver
// (schedule choices).
func (e *Explorer) choose(k int) int {
	if k <= 1 {
		return 0
	}
	i := len(e.trace)
	var d int32
	if i < len(e.prefix) {
		d = e.prefix[i]
	} else {
		for alt := k - 1; alt >= 1; alt-- {
			e.pushSibling(int32(alt))
		}
	}
	e.trace = append(e.trace, d)
	e.res.Decisions++
	return int(d)
}

// concretize forks deterministically (in increasing order) over the finite
// domain of the choice variables a term depends on.
func (e *Explorer) concretize(t *Term) int64 {
	if t.op == "int" {
		return t.ival
	}
	vars := map[string]*Term{}
	var order []string
	collectDecls(t, func(d *Term) {
		if d.op == "var" {
			if _, ok := vars[d.name]; !ok {
				vars[d.name] = d
				order = append(order, d.name)
			}
		} else {
			order = append(order, "\x00uf")
		}
	})
	env := map[string]int64{}
	for _, n := range order {
		if n == "\x00uf" {
			panic(abortPath{"concretize of a term with uninterpreted functions: " + t.String()})
		}
		v := vars[n]
		k, ok := e.domain[n]
		if !ok || v.isB {
			panic(abortPath{"concretize without finite domain: " + n + " in " + t.String()})
		}
		found := false
		for x := int64(0); x < k; x++ {
			if e.decide(tEq(v, tInt(x))) {
				env[n] = x
				found = true
				break
			}
		}
		if !found {
			panic(abortPath{infeasible})
		}
	}
	r, ok := evalInt(t, env)
	if !ok {
		panic(abortPath{"concretize: cannot evaluate " + t.String()})
	}
	return r
}

func evalBool(t *Term, env map[string]int64) (bool, bool) {
	switch t.op {
	case "bool":
		return t.bval, true
	case "not":
		b, ok := evalBool(t.args[0], env)
		return !b, ok
	case "and", "or":
		res := t.op == "and"
		for _, a := range t.args {
			b, ok := evalBool(a, env)
			if !ok {
				return false, false
			}
			if t.op == "and" {
				res = res && b
			} else {
				res = res || b
			}
		}
		return res, true
	case "=", "<", "<=", ">", ">=":
		if t.args[0].isB {
			a, ok1 := evalBool(t.args[0], env)
			b, ok2 := evalBool(t.args[1], env)
			return a == b, ok1 && ok2
		}
		a, ok1 := evalInt(t.args[0], env)
		b, ok2 := evalInt(t.args[1], env)
		if !ok1 || !ok2 {
			return false, false
		}
		switch t.op {
		case "=":
			return a == b, true
		case "<":
			return a < b, true
		case "<=":
			return a <= b, true
		case ">":
			return a > b, true
		}
		return a >= b, true
	case "ite":
		c, ok := evalBool(t.args[0], env)
		if !ok {
			return false, false
		}
		if c {
			return evalBool(t.args[1], env)
		}
		return evalBool(t.args[2], env)
	}
	return false, false
}

func evalInt(t *Term, env map[string]int64) (int64, bool) {
	switch t.op {
	case "int":
		return t.ival, true
	case "var":
		v, ok := env[t.name]
		return v, ok
	case "+", "-", "*":
		acc, ok := evalInt(t.args[0], env)
		if !ok {
			return 0, false
		}
		for _, a := range t.args[1:] {
			b, ok := evalInt(a, env)
			if !ok {
				return 0, false
			}
			switch t.op {
			case "+":
				acc += b
			case "-":
				acc -= b
			default:
				acc *= b
			}
		}
		return acc, true
	case "ite":
		c, ok := evalBool(t.args[0], env)
		if !ok {
			return 0, false
		}
		if c {
			return evalInt(t.args[1], env)
		}
		return evalInt(t.args[2], env)
	}
	return 0, false
}

func shortSite(site string) string {
	// "(*github.com/x/y/graph.Graph).Dijkstra#0" → "Graph.Dijkstra#0"; "pkg/path.fn$1#2" → "fn$1#2"
	s := site
	recv := ""
	if strings.HasPrefix(s, "(") {
		if i := strings.Index(s, ")."); i >= 0 {
			r := s[1:i]
			r = strings.TrimPrefix(r, "*")
			if j := strings.LastIndex(r, "."); j >= 0 {
				r = r[j+1:]
			}
			recv = r + "."
			s = s[i+2:]
		}
	} else if j := strings.LastIndex(s, "/"); j >= 0 {
		s = s[j+1:]
		if k := strings.Index(s, "."); k >= 0 {
			s = s[k+1:]
		}
	} else if k := strings.Index(s, "."); k >= 0 {
		s = s[k+1:]
	}
	return recv + s
}

func (e *Explorer) schedule(order []int, site string) []int {
	n := len(order)
	if n <= 1 {
		return order
	}
	ss := shortSite(site)
	pol, ok := e.siteSched[ss]
	if !ok {
		// allow naming a whole function ("Graph.Dijkstra") without ordinal
		if i := strings.LastIndex(ss, "#"); i >= 0 {
			pol, ok = e.siteSched[ss[:i]]
		}
		if !ok {
			pol = e.defaultSched
		}
	}
	e.siteInst[ss]++
	switch pol.kind {
	case schedInsertion:
		return order
	case schedFlip:
		if e.flipBit(ss) == 1 {
			reverseInts(order)
		}
		return order
	case schedRot:
		k, ok := e.siteBit["rot:"+ss]
		if !ok {
			m := pol.arg
			if m <= 0 {
				m = 3
			}
			k = e.choose(m)
			e.siteBit["rot:"+ss] = k
			e.usedSched[fmt.Sprintf("%s=rot%d", ss, k)] = true
		}
		if k%n != 0 {
			out := make([]int, n)
			for i := range order {
				out[i] = order[(i+k)%n]
			}
			order = out
		}
		if e.flipBit(ss) == 1 {
			reverseInts(order)
		}
		return order
	case schedPerm:
		if n > pol.arg {
			if e.flipBit(ss) == 1 {
				reverseInts(order)
			}
			return order
		}
		rem := append([]int(nil), order...)
		out := make([]int, 0, n)
		for len(rem) > 1 {
			c := e.choose(len(rem))
			out = append(out, rem[c])
			rem = append(rem[:c], rem[c+1:]...)
		}
		out = append(out, rem[0])
		e.usedSched[ss+"=perm"] = true
		return out
	case schedSeeded:
		h := fnv.New64a()
		fmt.Fprintf(h, "%d/%d/%d/%s/%d", e.seed, e.schedSeed, e.schedEpoch, ss, e.siteInst[ss])
		r := rand.New(rand.NewSource(int64(h.Sum64())))
		r.Shuffle(n, func(i, j int) { order[i], order[j] = order[j], order[i] })
		e.usedSched[ss+"=seeded"] = true
		return order
	}
	return order
}

func (e *Explorer) flipBit(ss string) int {
	b, ok := e.siteBit[ss]
	if !ok {
		b = e.choose(2)
		e.siteBit[ss] = b
		if b == 1 {
			e.usedSched[ss+"=flip"] = true
		}
	}
	return b
}

func reverseInts(a []int) {
	for i, j := 0, len(a)-1; i < j; i, j = i+1, j-1 {
		a[i], a[j] = a[j], a[i]
	}
}

func nameOf(base Value, idx Value) string {
	n := base.(string)
	if xs, ok := idx.([]Value); ok {
		for _, x := range xs {
			n += fmt.Sprintf("_%d", x.(int64))
		}
	}
	return n
}

// smtName makes a harness-chosen input name a legal, non-reserved SMT-LIB symbol.
func smtName(name string) string {
	var sb strings.Builder
	sb.WriteString("i_")
	for _, r := range name {
		if (r >= 'a' && r <= 'z') || (r >= 'A' && r <= 'Z') || (r >= '0' && r <= '9') || r == '_' || r == '.' {
			sb.WriteRune(r)
		} else {
			sb.WriteRune('_')
		}
	}
	return sb.String()
}

func (e *Explorer) input(name string, isB bool) *Term {
	if t, ok := e.seen[name]; ok {
		return t
	}
	sn := smtName(name)
	var t *Term
	if isB {
		t = tVarB(sn)
	} else {
		t = tVarI(sn)
	}
	e.seen[name] = t
	e.names = append(e.names, sn)
	e.orig[sn] = name
	e.isBool[sn] = isB
	e.s.declare(t)
	return t
}

// origNames maps a model keyed by SMT symbols back to the harness's input names.
func (e *Explorer) origNames(m map[string]string) map[string]string {
	out := make(map[string]string, len(m))
	for k, v := range m {
		if o, ok := e.orig[k]; ok {
			out[o] = v
		} else {
			out[k] = v
		}
	}
	return out
}

func (e *Explorer) model(extra *Term) map[string]string {
	m, _, r := e.s.ModelWith(extra, e.names, nil)
	if r != "sat" {
		return map[string]string{"_model": "unavailable: " + r}
	}
	return e.origNames(m)
}

// pathModel returns a model of the path condition and fills in the digest
// entries that are symbolic terms with their value in that model.
func (e *Explorer) pathModel() map[string]string {
	ts := make([]*Term, len(e.digestTerms))
	for i, d := range e.digestTerms {
		ts[i] = d.t
	}
	m, vals, r := e.s.ModelWith(nil, e.names, ts)
	if r != "sat" {
		return nil
	}
	if len(vals) == len(ts) {
		for i, d := range e.digestTerms {
			e.res.Digest[d.idx] = d.label + "=" + vals[i]
		}
	}
	return e.origNames(m)
}

func (e *Explorer) schedList() []string {
	var out []string
	for k := range e.usedSched {
		out = append(out, k)
	}
	sort.Strings(out)
	return out
}

func (e *Explorer) violate(kind, label, finding string, c *Term) {
	var model map[string]string
	if c != nil && c.op != "bool" {
		model = e.model(tNot(c))
	} else {
		model = e.model(nil)
	}
	e.res.Violations = append(e.res.Violations, Violation{
		Label: label, Finding: finding, Note: e.res.Note, Model: model, Kind: kind,
		Schedule: e.schedList(), Trace: append([]int32(nil), e.trace...),
	})
}

func (e *Explorer) assert(c Value, label, finding string) {
	e.res.Asserts++
	t := asTerm(c)
	if t.op == "bool" {
		if t.bval {
			e.res.Discharged++
			return
		}
		// concretely false: still only a violation if the path is feasible
		if r := e.s.CheckPath(); r == "unsat" {
			panic(abortPath{infeasible})
		} else if r != "sat" {
			panic(abortPath{"solver: " + r})
		}
		e.violate("assert", label, finding, t)
		return
	}
	switch r := e.s.CheckWith(tNot(t)); r {
	case "unsat":
		e.res.Discharged++
	case "sat":
		e.violate("assert", label, finding, t)
	default:
		panic(abortPath{"solver: " + r})
	}
}

func (e *Explorer) intrinsic(it *Interp, name string, args []Value) Value {
	switch name {
	case "vnInt", "vnPayload":
		n := nameOf(args[0], args[1])
		if _, ok := e.seen[n]; !ok {
			t := e.input(n, false)
			e.s.Assert(inRange(t, intRange{64, true}))
			t.setRange(intRange{64, true})
		}
		return e.seen[n]
	case "vnInt32":
		t := e.input(nameOf(args[0], args[1]), false)
		e.s.Assert(inRange(t, intRange{32, true}))
		t.setRange(intRange{32, true})
		return t
	case "vnChoice":
		n := nameOf(args[0], args[2])
		k := args[1].(int64)
		if _, ok := e.seen[n]; !ok {
			t := e.input(n, false)
			e.s.Assert(mk("and", true, mk("<=", true, tInt(0), t), mk("<", true, t, tInt(k))))
			e.domain[smtName(n)] = k
			t.iv, t.lo, t.hi = true, 0, k-1
		}
		return e.seen[n]
	case "vnBool":
		return e.input(nameOf(args[0], args[1]), true)
	case "vnUF":
		fn := "uf_" + args[0].(string)
		xs, _ := args[1].([]Value)
		ts := make([]*Term, len(xs))
		for i, x := range xs {
			ts[i] = asTerm(x)
		}
		return tUF(fn, ts...)
	case "vnAssume":
		c := asTerm(args[0])
		if c.op == "bool" {
			if !c.bval {
				panic(abortPath{infeasible})
			}
			return nil
		}
		e.s.Assert(c) // lazy: infeasibility surfaces at the next decision/assert
		e.pcSat = false
		tighten(c)
		return nil
	case "vnAssert":
		e.assert(args[0], args[1].(string), "")
		return nil
	case "vnAssertK":
		e.assert(args[0], args[1].(string), args[2].(string))
		return nil
	case "vnNote":
		e.res.Note = args[0].(string)
		return nil
	case "vnNoteAppend":
		e.res.Note += args[0].(string)
		return nil
	case "vnTrace":
		e.res.Digest = append(e.res.Digest, args[0].(string))
		return nil
	case "vnTraceInt":
		t := asTerm(args[1])
		if t.op == "int" {
			e.res.Digest = append(e.res.Digest, fmt.Sprintf("%s=%d", args[0].(string), t.ival))
		} else {
			e.res.Digest = append(e.res.Digest, args[0].(string)+"=?")
			e.digestTerms = append(e.digestTerms, digestTerm{len(e.res.Digest) - 1, args[0].(string), t})
		}
		return nil
	case "vnCover":
		e.res.Covers = append(e.res.Covers, args[0].(string))
		return nil
	case "vnAnd":
		return simp(tAnd(asTerm(args[0]), asTerm(args[1])))
	case "vnOr":
		return simp(tOr(asTerm(args[0]), asTerm(args[1])))
	case "vnImplies":
		return simp(tOr(tNot(asTerm(args[0])), asTerm(args[1])))
	case "vnIte":
		return simp(tIte(asTerm(args[0]), asTerm(args[1]), asTerm(args[2])))
	case "vnIsSymbolic":
		return true
	case "vnSchedule":
		e.siteSched[args[0].(string)] = schedPolicy{int(args[1].(int64)), int(args[2].(int64))}
		return nil
	case "vnScheduleDefault":
		e.defaultSched = schedPolicy{int(args[0].(int64)), int(args[1].(int64))}
		return nil
	case "vnScheduleSeed":
		e.schedSeed = args[0].(int64)
		return nil
	case "vnScheduleEpoch":
		e.siteBit = map[string]int{}
		e.schedEpoch++
		return nil
	case "vnScheduleRestart":
		e.siteInst = map[string]int{}
		return nil
	case "vnCut":
		it.cuts[args[0].(string)] = true
		return nil
	case "vnDepthLimit":
		it.maxDepth = int(args[0].(int64))
		return nil
	case "vnEpoch":
		roots, _ := args[0].([]Value)
		it.takeEpoch(roots)
		return nil
	case "vnSharedWrites":
		return int64(len(it.sharedWrites) + len(it.lockConflicts()))
	case "vnSharedWriteSites":
		return strings.Join(append(dedup(it.sharedWrites), it.lockConflicts()...), "; ")
	case "vnTogether":
		// two goroutines of the native replay; here one after the other (the write-set /
		// lockset oracle does not depend on the interleaving)
		it.callValue(args[0], nil)
		it.phase++
		it.callValue(args[1], nil)
		it.phase++
		return nil
	case "vnOnDivergence":
		it.onDivSet = true
		it.onDivLabel = args[0].(string)
		it.onDivFinding = args[1].(string)
		return nil
	case "vnPar":
		it.runPar(args[0], args[1], int(args[2].(int64)))
		return nil
	case "vnLocked":
		it.callValue(args[0], nil)
		return nil
	case "vnConcurrently":
		it.callValue(args[0], nil)
		return nil
	case "vnFeasible":
		// is the path condition (with all assumptions so far) satisfiable?
		r := e.s.CheckPath()
		if r != "sat" && r != "unsat" {
			panic(abortPath{"solver: " + r})
		}
		if r == "unsat" {
			panic(abortPath{infeasible})
		}
		return nil
	}
	panic(abortPath{"unknown intrinsic " + name})
}

func dedup(ss []string) []string {
	seen := map[string]bool{}
	var out []string
	for _, s := range ss {
		if !seen[s] {
			seen[s] = true
			out = append(out, s)
		}
	}
	return out
}

// tighten narrows the interval of a variable from an assumed comparison with
// a constant (sound: the assumption is part of the path condition).
func tighten(c *Term) {
	if c.op == "and" {
		for _, a := range c.args {
			tighten(a)
		}
		return
	}
	if len(c.args) != 2 {
		return
	}
	a, b := c.args[0], c.args[1]
	op := c.op
	if a.op == "int" && b.op == "var" {
		// flip: const op var  ==  var op' const
		a, b = b, a
		switch op {
		case "<":
			op = ">"
		case "<=":
			op = ">="
		case ">":
			op = "<"
		case ">=":
			op = "<="
		}
	}
	if a.op != "var" || a.isB || b.op != "int" || !a.iv {
		return
	}
	k := b.ival
	switch op {
	case "<=":
		if k < a.hi {
			a.hi = k
		}
	case "<":
		if k-1 < a.hi {
			a.hi = k - 1
		}
	case ">=":
		if k > a.lo {
			a.lo = k
		}
	case ">":
		if k+1 > a.lo {
			a.lo = k + 1
		}
	case "=":
		a.lo, a.hi = k, k
	}
}
