package engine

import (
	"fmt"
	"go/constant"
	"go/token"
	"go/types"
	"sort"
	"strings"
	"unicode/utf8"

	"golang.org/x/tools/go/ssa"
)

const repoPath = "github.com/hashicorp/go-argmapper"

type fnInfo struct {
	idx      map[ssa.Value]int
	n        int
	hasDefer bool
	inRepo   bool
	isVN     bool
	harness  bool // defined in an overlaid harness file (zz_*.go)
	name     string
	blocks   int
	rangeOrd map[*ssa.Range]int
}

// Interp is one worker's interpreter. It shares the immutable ssa.Program with
// the other workers and owns everything else.
type Interp struct {
	prog      *ssa.Program
	globals   map[*ssa.Global]*Value
	ex        *Explorer
	rm        *RModel
	info      map[*ssa.Function]*fnInfo
	cur       *frame
	depth     int
	steps     int64
	pathSteps int64

	maxDepth int
	maxSteps int64
	cuts     map[string]bool // functions replaced by an empty body for this path
	cutHits  map[string]int

	// statistics
	fnSeen  map[*ssa.Function]map[int]bool // blocks covered per function
	extSeen map[string]int

	// write tracking (C12)
	shared       map[*Value]bool
	sharedMaps   map[*Map]bool
	sharedWrites []string
	// lockset tracking: accesses by library code to shared cells together with the
	// locks held (a guarded write + an access under a disjoint lockset = candidate race)
	gWrites map[*Value][]access
	sReads  map[*Value][]access
	phase   int // which of the sequentially executed "goroutines" of vnTogether is running

	mapSeq int

	pkgInit   map[*ssa.Package]bool
	forceInit bool

	par       *parState
	hotPtrs   map[*Value]bool
	hotFields map[string]bool

	onDivSet     bool
	onDivLabel   string
	onDivFinding string
}

type deferred struct {
	fn   Value
	args []Value
}

type frame struct {
	fn        *ssa.Function
	info      *fnInfo
	env       []Value
	block     *ssa.BasicBlock
	prev      *ssa.BasicBlock
	defers    []deferred
	panicking *targetPanic
	caller    *frame
	depth     int
	result    Value
	cl        []Value // free variable bindings
	curInstr  ssa.Instruction
}

func NewInterp(prog *ssa.Program, ex *Explorer) *Interp {
	it := &Interp{prog: prog, ex: ex, info: map[*ssa.Function]*fnInfo{},
		fnSeen: map[*ssa.Function]map[int]bool{}, extSeen: map[string]int{}, cutHits: map[string]int{},
		maxDepth: 400, maxSteps: 4_000_000}
	it.rm = newRModel(it)
	it.hotFields = computeHotFields(prog)
	return it
}

func (it *Interp) resetPath() {
	it.globals = map[*ssa.Global]*Value{}
	it.cur = nil
	it.depth = 0
	it.pathSteps = 0
	it.cuts = map[string]bool{}
	it.shared = nil
	it.sharedMaps = nil
	it.sharedWrites = nil
	it.gWrites, it.sReads, it.phase = nil, nil, 0
	it.mapSeq = 0
	it.onDivSet = false
	it.pkgInit = map[*ssa.Package]bool{}
	it.par = nil
	it.hotPtrs = nil
	it.maxDepth = 400
	it.rm.resetPath()
}

func (it *Interp) infoOf(fn *ssa.Function) *fnInfo {
	if fi, ok := it.info[fn]; ok {
		return fi
	}
	fi := &fnInfo{idx: map[ssa.Value]int{}, rangeOrd: map[*ssa.Range]int{}}
	add := func(v ssa.Value) {
		fi.idx[v] = fi.n
		fi.n++
	}
	for _, p := range fn.Params {
		add(p)
	}
	for _, fv := range fn.FreeVars {
		add(fv)
	}
	nr := 0
	for _, b := range fn.Blocks {
		for _, ins := range b.Instrs {
			if v, ok := ins.(ssa.Value); ok {
				add(v)
			}
			if r, ok := ins.(*ssa.Range); ok {
				fi.rangeOrd[r] = nr
				nr++
			}
			if _, ok := ins.(*ssa.Defer); ok {
				fi.hasDefer = true
			}
		}
	}
	if fn.Recover != nil {
		fi.hasDefer = true
	}
	fi.blocks = len(fn.Blocks)
	fi.name = fn.String()
	if fn.Pkg != nil {
		fi.inRepo = strings.HasPrefix(fn.Pkg.Pkg.Path(), repoPath)
	} else if fn.Parent() != nil && fn.Parent().Pkg != nil {
		fi.inRepo = strings.HasPrefix(fn.Parent().Pkg.Pkg.Path(), repoPath)
	}
	if fn.Pos().IsValid() {
		fi.harness = strings.HasPrefix(shortFile(it.prog.Fset.Position(fn.Pos()).Filename), "zz_")
	}
	fi.isVN = fi.inRepo && fn.Parent() == nil && fn.Signature.Recv() == nil && strings.HasPrefix(fn.Name(), "vn")
	it.info[fn] = fi
	return fi
}

func (it *Interp) constValue(c *ssa.Const) Value {
	if c.Value == nil {
		return zero(c.Type())
	}
	if b, ok := c.Type().Underlying().(*types.Basic); ok {
		switch {
		case b.Info()&types.IsBoolean != 0:
			return constant.BoolVal(c.Value)
		case b.Info()&types.IsInteger != 0:
			if v, ok := constant.Int64Val(constant.ToInt(c.Value)); ok {
				return v
			}
			u, _ := constant.Uint64Val(constant.ToInt(c.Value))
			return int64(u)
		case b.Info()&types.IsString != 0:
			return constant.StringVal(c.Value)
		case b.Info()&types.IsFloat != 0:
			f, _ := constant.Float64Val(c.Value)
			return f
		}
	}
	panic(abortPath{"const: unsupported " + c.String()})
}

func (it *Interp) global(g *ssa.Global) *Value {
	p, ok := it.globals[g]
	if !ok {
		z := zero(g.Type().(*types.Pointer).Elem())
		p = &z
		it.globals[g] = p
		// package-level variables of dependencies are initialised on first touch by
		// interpreting that package's own init (its imports' inits stay lazy too)
		if g.Pkg != nil && !strings.HasPrefix(g.Pkg.Pkg.Path(), repoPath) && !it.pkgInit[g.Pkg] && g.Name() != "init$guard" {
			it.pkgInit[g.Pkg] = true
			if initFn := g.Pkg.Func("init"); initFn != nil && initFn.Blocks != nil {
				it.forceInit = true
				saveCur, saveDepth := it.cur, it.depth
				func() {
					defer func() {
						it.forceInit = false
						it.cur, it.depth = saveCur, saveDepth
						if r := recover(); r != nil {
							if ap, ok := r.(abortPath); ok {
								panic(abortPath{"init of " + g.Pkg.Pkg.Path() + ": " + ap.why})
							}
							panic(r)
						}
					}()
					it.runInit(initFn)
				}()
			}
		}
	}
	return p
}

// runInit interprets a package init function body directly (bypassing the rule
// that dependency inits are skipped).
func (it *Interp) runInit(fn *ssa.Function) {
	fi := it.infoOf(fn)
	fr := &frame{fn: fn, info: fi, env: make([]Value, fi.n), caller: it.cur, depth: it.depth}
	fr.block = fn.Blocks[0]
	it.depth++
	it.cur = fr
	it.forceInit = false // nested dependency inits remain lazy
	it.runFrame(fr)
}

func (it *Interp) get(fr *frame, v ssa.Value) Value {
	switch v := v.(type) {
	case nil:
		return nil
	case *ssa.Const:
		return it.constValue(v)
	case *ssa.Global:
		return it.global(v)
	case *ssa.Function:
		return &Closure{fn: v}
	case *ssa.Builtin:
		return v
	}
	if i, ok := fr.info.idx[v]; ok {
		return fr.env[i]
	}
	panic(fmt.Sprintf("get: no value for %T %s in %s", v, v.Name(), fr.fn))
}

func (it *Interp) set(fr *frame, v ssa.Value, x Value) { fr.env[fr.info.idx[v]] = x }

// ---------------------------------------------------------------------------

func (it *Interp) binop(op token.Token, t types.Type, xt types.Type, x, y Value) Value {
	if isSym(x) || isSym(y) {
		a, b := asTerm(x), asTerm(y)
		if a.isB || b.isB {
			switch op {
			case token.EQL:
				return simp(tEq(a, b))
			case token.NEQ:
				return simp(tNot(tEq(a, b)))
			case token.AND:
				return simp(tAnd(a, b))
			case token.OR:
				return simp(tOr(a, b))
			}
			panic(abortPath{"symbolic bool binop " + op.String()})
		}
		r := rangeOf(t)
		switch op {
		case token.ADD:
			return simp(wrapOnce(tAdd(a, b), r))
		case token.SUB:
			return simp(wrapOnce(tSub(a, b), r))
		case token.LSS:
			return simp(tCmp("<", a, b))
		case token.LEQ:
			return simp(tCmp("<=", a, b))
		case token.GTR:
			return simp(tCmp(">", a, b))
		case token.GEQ:
			return simp(tCmp(">=", a, b))
		case token.EQL:
			return simp(tEq(a, b))
		case token.NEQ:
			return simp(tNot(tEq(a, b)))
		case token.MUL:
			// multiplication by a concrete constant stays linear
			if a.op == "int" || b.op == "int" {
				return simp(wrapConv(mk("*", false, a, b), r))
			}
		}
		panic(abortPath{"symbolic binop " + op.String()})
	}
	switch xv := x.(type) {
	case int64:
		yv, ok := y.(int64)
		if !ok {
			break
		}
		r := rangeOf(xt)
		uns := !r.signed
		switch op {
		case token.ADD:
			return normInt(xv+yv, r)
		case token.SUB:
			return normInt(xv-yv, r)
		case token.MUL:
			return normInt(xv*yv, r)
		case token.QUO:
			if yv == 0 {
				panic(runtimePanic("integer divide by zero"))
			}
			if uns {
				return normInt(int64(uint64(xv)/uint64(yv)), r)
			}
			return normInt(xv/yv, r)
		case token.REM:
			if yv == 0 {
				panic(runtimePanic("integer divide by zero"))
			}
			if uns {
				return normInt(int64(uint64(xv)%uint64(yv)), r)
			}
			return normInt(xv%yv, r)
		case token.AND:
			return xv & yv
		case token.OR:
			return xv | yv
		case token.XOR:
			return normInt(xv^yv, r)
		case token.AND_NOT:
			return xv &^ yv
		case token.SHL:
			if uint64(yv) >= 64 {
				return int64(0)
			}
			return normInt(xv<<uint64(yv), r)
		case token.SHR:
			if uns {
				if uint64(yv) >= 64 {
					return int64(0)
				}
				return normInt(int64(uint64(xv)>>uint64(yv)), r)
			}
			if uint64(yv) >= 64 {
				yv = 63
			}
			return xv >> uint64(yv)
		case token.LSS:
			if uns {
				return uint64(xv) < uint64(yv)
			}
			return xv < yv
		case token.LEQ:
			if uns {
				return uint64(xv) <= uint64(yv)
			}
			return xv <= yv
		case token.GTR:
			if uns {
				return uint64(xv) > uint64(yv)
			}
			return xv > yv
		case token.GEQ:
			if uns {
				return uint64(xv) >= uint64(yv)
			}
			return xv >= yv
		case token.EQL:
			return xv == yv
		case token.NEQ:
			return xv != yv
		}
	case string:
		yv, ok := y.(string)
		if !ok {
			break
		}
		switch op {
		case token.ADD:
			return xv + yv
		case token.EQL:
			return xv == yv
		case token.NEQ:
			return xv != yv
		case token.LSS:
			return xv < yv
		case token.LEQ:
			return xv <= yv
		case token.GTR:
			return xv > yv
		case token.GEQ:
			return xv >= yv
		}
	case bool:
		yv, ok := y.(bool)
		if !ok {
			break
		}
		switch op {
		case token.EQL:
			return xv == yv
		case token.NEQ:
			return xv != yv
		case token.AND:
			return xv && yv
		case token.OR:
			return xv || yv
		}
	case float64:
		yv, ok := y.(float64)
		if !ok {
			break
		}
		switch op {
		case token.ADD:
			return xv + yv
		case token.SUB:
			return xv - yv
		case token.MUL:
			return xv * yv
		case token.QUO:
			return xv / yv
		case token.LSS:
			return xv < yv
		case token.LEQ:
			return xv <= yv
		case token.GTR:
			return xv > yv
		case token.GEQ:
			return xv >= yv
		case token.EQL:
			return xv == yv
		case token.NEQ:
			return xv != yv
		}
	}
	switch op {
	case token.EQL:
		return eqTerm(x, y)
	case token.NEQ:
		r := eqTerm(x, y)
		if b, ok := r.(bool); ok {
			return !b
		}
		return simp(tNot(r.(*Term)))
	}
	panic(abortPath{fmt.Sprintf("binop: unsupported %s on %T/%T", op, x, y)})
}

func (it *Interp) typeAssert(instr *ssa.TypeAssert, x Iface) Value {
	ok := false
	var res Value
	if ai, isI := instr.AssertedType.Underlying().(*types.Interface); isI {
		ok = x.t != nil && it.implements(x.t, ai)
		res = x
	} else {
		ok = x.t != nil && types.Identical(x.t, instr.AssertedType)
		res = x.v
	}
	if instr.CommaOk {
		if !ok {
			res = zero(instr.AssertedType)
		}
		return Tuple{res, ok}
	}
	if !ok {
		if x.t == nil {
			panic(targetPanic{mkStringIface(fmt.Sprintf("interface conversion: interface is nil, not %v", instr.AssertedType))})
		}
		panic(targetPanic{mkStringIface(fmt.Sprintf("interface conversion: interface {} is %v, not %v", x.t, instr.AssertedType))})
	}
	return res
}

func (it *Interp) implements(t types.Type, iface *types.Interface) bool {
	if _, ok := t.Underlying().(*types.Interface); ok {
		// dynamic types are never interfaces, except our model pseudo types
		return false
	}
	return types.Implements(t, iface)
}

func (it *Interp) lookupMethod(t types.Type, m *types.Func) *ssa.Function {
	ms := it.prog.MethodSets.MethodSet(t)
	sel := ms.Lookup(m.Pkg(), m.Name())
	if sel == nil {
		panic(abortPath{fmt.Sprintf("no method %s on %s", m.Name(), t)})
	}
	fn := it.prog.MethodValue(sel)
	if fn == nil {
		panic(abortPath{fmt.Sprintf("abstract method %s on %s", m.Name(), t)})
	}
	return fn
}

func (it *Interp) prepareCall(fr *frame, c *ssa.CallCommon) (fnv Value, args []Value, done bool, res Value) {
	if c.IsInvoke() {
		recv, _ := it.get(fr, c.Value).(Iface)
		if recv.t == nil {
			panic(runtimePanic("invalid memory address or nil pointer dereference"))
		}
		margs := make([]Value, 0, len(c.Args)+1)
		switch o := recv.v.(type) {
		case *RType:
			for _, a := range c.Args {
				margs = append(margs, it.get(fr, a))
			}
			return nil, nil, true, it.rm.typeMethod(o, c.Method.Name(), margs)
		case *HostObj:
			for _, a := range c.Args {
				margs = append(margs, it.get(fr, a))
			}
			return nil, nil, true, it.rm.hostMethod(o, c.Method, margs)
		}
		fn := it.lookupMethod(recv.t, c.Method)
		fnv = &Closure{fn: fn}
		args = append(margs, recv.v)
	} else {
		fnv = it.get(fr, c.Value)
		args = make([]Value, 0, len(c.Args))
	}
	for _, a := range c.Args {
		args = append(args, it.get(fr, a))
	}
	return fnv, args, false, nil
}

func (it *Interp) call(fr *frame, c *ssa.CallCommon) Value {
	fnv, args, done, res := it.prepareCall(fr, c)
	if done {
		return res
	}
	return it.callValue(fnv, args)
}

func (it *Interp) callValue(fnv Value, args []Value) Value {
	switch f := fnv.(type) {
	case *ssa.Builtin:
		return it.builtin(f, args)
	case *Closure:
		if f == nil {
			panic(runtimePanic("invalid memory address or nil pointer dereference"))
		}
		return it.callFn(f.fn, args, f.env)
	case *MakeFuncObj:
		return it.rm.callMakeFuncDirect(f, args)
	}
	panic(abortPath{fmt.Sprintf("callValue: %T", fnv)})
}

func (it *Interp) callFn(fn *ssa.Function, args []Value, env []Value) Value {
	fi := it.infoOf(fn)
	if fi.isVN {
		return it.ex.intrinsic(it, fn.Name(), args)
	}
	if !fi.inRepo {
		if fn.Name() == "init" && fn.Signature.Recv() == nil {
			return nil
		}
		if v, ok := it.rm.external(fn, fi.name, args); ok {
			it.extSeen[fi.name]++
			return v
		}
	} else if len(it.cuts) > 0 && it.cuts[fi.name] {
		it.cutHits[fi.name]++
		rs := fn.Signature.Results()
		switch rs.Len() {
		case 0:
			return nil
		case 1:
			return zero(rs.At(0).Type())
		}
		return zero(rs)
	}
	if fn.Blocks == nil {
		panic(abortPath{"external function without body: " + fi.name})
	}
	if it.depth >= it.maxDepth {
		panic(divergence{fmt.Sprintf("call depth %d exceeded in %s", it.maxDepth, fi.name)})
	}
	fr := &frame{fn: fn, info: fi, env: make([]Value, fi.n), caller: it.cur, depth: it.depth}
	copy(fr.env, args)
	copy(fr.env[len(fn.Params):], env)
	fr.block = fn.Blocks[0]
	it.depth++
	it.cur = fr
	var res Value
	if fi.hasDefer {
		res = it.runFrameGuarded(fr)
	} else {
		res = it.runFrame(fr)
	}
	it.cur = fr.caller
	it.depth = fr.depth
	return res
}

func (it *Interp) runDefers(fr *frame) {
	for len(fr.defers) > 0 {
		d := fr.defers[len(fr.defers)-1]
		fr.defers = fr.defers[:len(fr.defers)-1]
		it.cur = fr
		it.depth = fr.depth + 1
		it.callValue(d.fn, d.args)
	}
}

func (it *Interp) runFrameGuarded(fr *frame) (result Value) {
	fn := fr.fn
	defer func() {
		if r := recover(); r != nil {
			tp, ok := r.(targetPanic)
			if !ok {
				panic(r)
			}
			it.cur = fr
			it.depth = fr.depth + 1
			fr.panicking = &tp
			it.runDefers(fr)
			if fr.panicking != nil {
				panic(*fr.panicking) // not recovered: propagate
			}
			// recovered: resume at the recover block if there is one
			if fn.Recover != nil {
				fr.prev, fr.block = fr.block, fn.Recover
				result = it.runFrameGuarded(fr)
				return
			}
			rs := fn.Signature.Results()
			switch rs.Len() {
			case 0:
				result = nil
			case 1:
				result = zero(rs.At(0).Type())
			default:
				result = zero(rs)
			}
		}
	}()
	return it.runFrame(fr)
}

func (it *Interp) runFrame(fr *frame) Value {
	seen := it.fnSeen[fr.fn]
	if seen == nil {
		seen = map[int]bool{}
		it.fnSeen[fr.fn] = seen
	}
	for {
		seen[fr.block.Index] = true
		var next *ssa.BasicBlock
		instrs := fr.block.Instrs
		it.steps += int64(len(instrs))
		it.pathSteps += int64(len(instrs))
		if it.pathSteps > it.maxSteps {
			panic(divergence{"step budget exceeded"})
		}
		for _, ins := range instrs {
			switch ins := ins.(type) {
			case *ssa.Return:
				switch len(ins.Results) {
				case 0:
					return nil
				case 1:
					return it.get(fr, ins.Results[0])
				}
				t := make(Tuple, len(ins.Results))
				for i, r := range ins.Results {
					t[i] = it.get(fr, r)
				}
				return t
			case *ssa.Jump:
				next = fr.block.Succs[0]
			case *ssa.If:
				c := it.get(fr, ins.Cond)
				var b bool
				if t, ok := c.(*Term); ok {
					b = it.ex.decide(t)
				} else {
					b = c.(bool)
				}
				if b {
					next = fr.block.Succs[0]
				} else {
					next = fr.block.Succs[1]
				}
			case *ssa.Panic:
				v := it.get(fr, ins.X)
				if iv, ok := v.(Iface); ok {
					panic(targetPanic{iv})
				}
				panic(targetPanic{v})
			default:
				fr.curInstr = ins
				it.exec(fr, ins)
			}
		}
		fr.prev, fr.block = fr.block, next
	}
}

func (it *Interp) concretizeIndex(v Value) int64 {
	if i, ok := v.(int64); ok {
		return i
	}
	return it.ex.concretize(v.(*Term))
}

func (it *Interp) where(fr *frame) string {
	pos := ""
	if fr.curInstr != nil && fr.curInstr.Pos().IsValid() {
		p := it.prog.Fset.Position(fr.curInstr.Pos())
		pos = fmt.Sprintf(" %s:%d", shortFile(p.Filename), p.Line)
	}
	return fr.info.name + pos
}

func shortFile(f string) string {
	if i := strings.LastIndex(f, "/"); i >= 0 {
		return f[i+1:]
	}
	return f
}

// store is the single place through which the interpreted program writes a cell.
func (it *Interp) store(p *Value, v Value) {
	if it.shared != nil {
		it.noteWrite(p)
	}
	storeRaw(p, v)
}

type access struct {
	locks []*Value
	site  string
}

// lockset: the locks the running (interpreted) goroutine holds. A sync.Once the
// goroutine is inside of, or has already passed, counts as a lock (everything
// done inside Do happens-before every return of Do).
func (it *Interp) lockset() []*Value {
	var ls []*Value
	me := it.threadID()
	if it.par != nil {
		for m, o := range it.par.owner {
			if o == it.par.cur {
				ls = append(ls, m)
			}
		}
	} else {
		ls = append(ls, it.rm.held...)
	}
	for p, o := range it.rm.onceRunning {
		if o == me {
			ls = append(ls, p)
		}
	}
	for k := range it.rm.oncePassed {
		if k.thread == me {
			ls = append(ls, k.once)
		}
	}
	return ls
}

func (it *Interp) threadID() int {
	if it.par != nil {
		return it.par.cur + 1
	}
	return 1 + 10*it.phase
}

func (it *Interp) guarded() bool {
	if it.par == nil && len(it.rm.onceRunning) == 0 && len(it.rm.oncePassed) == 0 {
		return len(it.rm.held) > 0
	}
	return len(it.lockset()) > 0
}

func disjoint(a, b []*Value) bool {
	for _, x := range a {
		for _, y := range b {
			if x == y {
				return false
			}
		}
	}
	return true
}

func sameLocks(a, b []*Value) bool {
	if len(a) != len(b) {
		return false
	}
	for _, x := range a {
		f := false
		for _, y := range b {
			f = f || x == y
		}
		if !f {
			return false
		}
	}
	return true
}

// subCells calls f for p and for every cell nested in the aggregate stored at p.
func subCells(p *Value, f func(*Value)) {
	f(p)
	switch v := (*p).(type) {
	case Struct:
		for i := range v {
			subCells(&v[i], f)
		}
	case Array:
		for i := range v {
			subCells(&v[i], f)
		}
	}
}

func (it *Interp) noteWrite(p *Value) {
	if it.cur != nil && it.cur.info.harness {
		return // the harness's own bookkeeping is not the library's write
	}
	if !it.shared[p] {
		return
	}
	w := "?"
	if it.cur != nil {
		w = it.where(it.cur)
	}
	if !it.guarded() {
		it.sharedWrites = append(it.sharedWrites, w)
		return
	}
	if it.gWrites == nil {
		it.gWrites = map[*Value][]access{}
	}
	ls := it.lockset()
	subCells(p, func(c *Value) {
		for _, a := range it.gWrites[c] {
			if sameLocks(a.locks, ls) {
				return
			}
		}
		it.gWrites[c] = append(it.gWrites[c], access{ls, w})
	})
}

// noteRead records a load by library code from a shared cell with the lockset held.
func (it *Interp) noteRead(p *Value) {
	if it.cur != nil && it.cur.info.harness {
		return
	}
	if !it.shared[p] {
		return
	}
	if it.sReads == nil {
		it.sReads = map[*Value][]access{}
	}
	ls := it.lockset()
	site := ""
	subCells(p, func(c *Value) {
		for _, a := range it.sReads[c] {
			if sameLocks(a.locks, ls) {
				return
			}
		}
		if site == "" {
			site = "?"
			if it.cur != nil {
				site = it.where(it.cur)
			}
		}
		it.sReads[c] = append(it.sReads[c], access{ls, site})
	})
}

// lockConflicts: shared cells written under a lock and accessed (read or written)
// under a lockset that shares no lock with it.
func (it *Interp) lockConflicts() []string {
	var out []string
	seen := map[string]bool{}
	for c, ws := range it.gWrites {
		for _, w := range ws {
			for _, r := range it.sReads[c] {
				if disjoint(w.locks, r.locks) {
					k := "written under a lock at " + w.site + " but read without that lock at " + r.site
					if !seen[k] {
						seen[k] = true
						out = append(out, k)
					}
				}
			}
			for _, w2 := range ws {
				if disjoint(w.locks, w2.locks) {
					k := "written under unrelated locks at " + w.site + " and " + w2.site
					if !seen[k] {
						seen[k] = true
						out = append(out, k)
					}
				}
			}
		}
	}
	sort.Strings(out)
	return out
}

func (it *Interp) noteMapWrite(m *Map) {
	if it.cur != nil && it.cur.info.harness {
		return
	}
	if it.sharedMaps != nil && it.sharedMaps[m] && !it.guarded() {
		w := "?"
		if it.cur != nil {
			w = it.where(it.cur)
		}
		it.sharedWrites = append(it.sharedWrites, "map write at "+w)
	}
}

func (it *Interp) exec(fr *frame, ins ssa.Instruction) {
	switch ins := ins.(type) {
	case *ssa.DebugRef:
	case *ssa.Alloc:
		z := zero(ins.Type().(*types.Pointer).Elem())
		it.set(fr, ins, &z)
	case *ssa.UnOp:
		x := it.get(fr, ins.X)
		switch ins.Op {
		case token.MUL:
			p := x.(*Value)
			if p == nil {
				panic(runtimePanic("invalid memory address or nil pointer dereference"))
			}
			if it.par != nil && it.hotPtrs[p] {
				it.parYield()
			}
			if it.shared != nil {
				it.noteRead(p)
			}
			it.set(fr, ins, copyVal(*p))
		case token.NOT:
			if t, ok := x.(*Term); ok {
				it.set(fr, ins, simp(tNot(t)))
			} else {
				it.set(fr, ins, !x.(bool))
			}
		case token.SUB:
			switch xv := x.(type) {
			case *Term:
				it.set(fr, ins, simp(wrapOnce(tSub(tInt(0), xv), rangeOf(ins.Type()))))
			case int64:
				it.set(fr, ins, normInt(-xv, rangeOf(ins.Type())))
			case float64:
				it.set(fr, ins, -xv)
			default:
				panic(abortPath{"unop - on " + fmt.Sprintf("%T", x)})
			}
		case token.XOR:
			it.set(fr, ins, normInt(^x.(int64), rangeOf(ins.Type())))
		default:
			panic(abortPath{"unop " + ins.Op.String()})
		}
	case *ssa.BinOp:
		it.set(fr, ins, it.binop(ins.Op, ins.Type(), ins.X.Type(), it.get(fr, ins.X), it.get(fr, ins.Y)))
	case *ssa.Store:
		p := it.get(fr, ins.Addr).(*Value)
		if p == nil {
			panic(runtimePanic("invalid memory address or nil pointer dereference"))
		}
		if it.par != nil && it.hotPtrs[p] {
			it.parYield()
		}
		it.store(p, it.get(fr, ins.Val))
	case *ssa.FieldAddr:
		p := it.get(fr, ins.X).(*Value)
		if p == nil {
			panic(runtimePanic("invalid memory address or nil pointer dereference"))
		}
		fp := &(*p).(Struct)[ins.Field]
		if it.par != nil && it.shared != nil && it.shared[fp] && it.hotFields[fieldKey(ins)] {
			it.hotPtrs[fp] = true
		}
		it.set(fr, ins, fp)
	case *ssa.Field:
		it.set(fr, ins, copyVal(it.get(fr, ins.X).(Struct)[ins.Field]))
	case *ssa.IndexAddr:
		x := it.get(fr, ins.X)
		i := it.concretizeIndex(it.get(fr, ins.Index))
		switch x := x.(type) {
		case []Value:
			if i < 0 || int(i) >= len(x) {
				panic(runtimePanic(fmt.Sprintf("index out of range [%d] with length %d", i, len(x))))
			}
			it.set(fr, ins, &x[i])
		case *Value:
			if x == nil {
				panic(runtimePanic("invalid memory address or nil pointer dereference"))
			}
			a := (*x).(Array)
			if i < 0 || int(i) >= len(a) {
				panic(runtimePanic(fmt.Sprintf("index out of range [%d] with length %d", i, len(a))))
			}
			it.set(fr, ins, &a[i])
		default:
			panic(abortPath{fmt.Sprintf("indexaddr %T", x)})
		}
	case *ssa.Index:
		x := it.get(fr, ins.X)
		i := it.concretizeIndex(it.get(fr, ins.Index))
		switch x := x.(type) {
		case Array:
			if i < 0 || int(i) >= len(x) {
				panic(runtimePanic(fmt.Sprintf("index out of range [%d] with length %d", i, len(x))))
			}
			it.set(fr, ins, copyVal(x[i]))
		case string:
			if i < 0 || int(i) >= len(x) {
				panic(runtimePanic(fmt.Sprintf("index out of range [%d] with length %d", i, len(x))))
			}
			it.set(fr, ins, int64(x[i]))
		default:
			panic(abortPath{fmt.Sprintf("index %T", x)})
		}
	case *ssa.Phi:
		for i, p := range fr.block.Preds {
			if p == fr.prev {
				it.set(fr, ins, it.get(fr, ins.Edges[i]))
				break
			}
		}
	case *ssa.Call:
		it.set(fr, ins, it.call(fr, &ins.Call))
	case *ssa.MakeInterface:
		it.set(fr, ins, Iface{ins.X.Type(), it.get(fr, ins.X)})
	case *ssa.ChangeInterface:
		it.set(fr, ins, it.get(fr, ins.X))
	case *ssa.ChangeType:
		it.set(fr, ins, it.get(fr, ins.X))
	case *ssa.Convert:
		it.set(fr, ins, it.convert(ins.X.Type(), ins.Type(), it.get(fr, ins.X)))
	case *ssa.TypeAssert:
		x, _ := it.get(fr, ins.X).(Iface)
		it.set(fr, ins, it.typeAssert(ins, x))
	case *ssa.Extract:
		it.set(fr, ins, it.get(fr, ins.Tuple).(Tuple)[ins.Index])
	case *ssa.MakeMap:
		m := newMap()
		it.mapSeq++
		m.id = it.mapSeq
		it.set(fr, ins, m)
	case *ssa.MakeSlice:
		n := it.concretizeIndex(it.get(fr, ins.Len))
		c := it.concretizeIndex(it.get(fr, ins.Cap))
		if n < 0 || c < n || c > 1<<24 {
			panic(runtimePanic("makeslice: len out of range"))
		}
		et := ins.Type().Underlying().(*types.Slice).Elem()
		s := make([]Value, n, c)
		for i := range s {
			s[i] = zero(et)
		}
		it.set(fr, ins, s)
	case *ssa.MakeClosure:
		env := make([]Value, len(ins.Bindings))
		for i, b := range ins.Bindings {
			env[i] = it.get(fr, b)
		}
		it.set(fr, ins, &Closure{fn: ins.Fn.(*ssa.Function), env: env})
	case *ssa.MapUpdate:
		m := it.get(fr, ins.Map).(*Map)
		if m == nil {
			panic(targetPanic{mkStringIface("assignment to entry in nil map")})
		}
		it.noteMapWrite(m)
		m.set(it.get(fr, ins.Key), copyVal(it.get(fr, ins.Value)))
	case *ssa.Lookup:
		x := it.get(fr, ins.X)
		if str, ok := x.(string); ok {
			i := it.concretizeIndex(it.get(fr, ins.Index))
			if i < 0 || int(i) >= len(str) {
				panic(runtimePanic(fmt.Sprintf("index out of range [%d] with length %d", i, len(str))))
			}
			it.set(fr, ins, int64(str[i]))
			return
		}
		m, ok := x.(*Map)
		if !ok {
			panic(abortPath{"lookup on non-map"})
		}
		k := it.get(fr, ins.Index)
		if kt, ok := k.(*Term); ok {
			k = it.ex.concretize(kt)
		}
		v, found := m.get(k)
		if !found {
			v = zero(ins.X.Type().Underlying().(*types.Map).Elem())
		}
		if ins.CommaOk {
			it.set(fr, ins, Tuple{copyVal(v), found})
		} else {
			it.set(fr, ins, copyVal(v))
		}
	case *ssa.Range:
		x := it.get(fr, ins.X)
		if s, ok := x.(string); ok {
			it.set(fr, ins, &Iter{isS: true, str: s})
			return
		}
		m := x.(*Map)
		iter := &Iter{m: m}
		if m != nil {
			for i := range m.keys {
				if m.live[i] {
					iter.order = append(iter.order, i)
				}
			}
			site := fmt.Sprintf("%s#%d", fr.info.name, fr.info.rangeOrd[ins])
			iter.order = it.ex.schedule(iter.order, site)
		}
		it.set(fr, ins, iter)
	case *ssa.Next:
		iter := it.get(fr, ins.Iter).(*Iter)
		if iter.isS {
			if iter.spos >= len(iter.str) {
				it.set(fr, ins, Tuple{false, int64(0), int64(0)})
				return
			}
			r, w := utf8.DecodeRuneInString(iter.str[iter.spos:])
			it.set(fr, ins, Tuple{true, int64(iter.spos), int64(r)})
			iter.spos += w
			return
		}
		for iter.i < len(iter.order) && !iter.m.live[iter.order[iter.i]] {
			iter.i++
		}
		if iter.i >= len(iter.order) {
			it.set(fr, ins, Tuple{false, nil, nil})
		} else {
			j := iter.order[iter.i]
			iter.i++
			it.set(fr, ins, Tuple{true, iter.m.keys[j], copyVal(iter.m.vals[j])})
		}
	case *ssa.Slice:
		it.set(fr, ins, it.sliceOp(fr, ins))
	case *ssa.RunDefers:
		it.runDefers(fr)
		it.cur = fr
		it.depth = fr.depth + 1
	case *ssa.Defer:
		fnv, args, done, _ := it.prepareDefer(fr, &ins.Call)
		if !done {
			fr.defers = append(fr.defers, deferred{fnv, args})
		}
	case *ssa.Go:
		panic(abortPath{"go statement outside vnPar"})
	default:
		panic(abortPath{fmt.Sprintf("unsupported instruction %T", ins)})
	}
}

func (it *Interp) prepareDefer(fr *frame, c *ssa.CallCommon) (Value, []Value, bool, Value) {
	if c.IsInvoke() {
		recv, _ := it.get(fr, c.Value).(Iface)
		if recv.t == nil {
			panic(runtimePanic("invalid memory address or nil pointer dereference"))
		}
		fn := it.lookupMethod(recv.t, c.Method)
		args := []Value{recv.v}
		for _, a := range c.Args {
			args = append(args, it.get(fr, a))
		}
		return &Closure{fn: fn}, args, false, nil
	}
	fnv := it.get(fr, c.Value)
	var args []Value
	for _, a := range c.Args {
		args = append(args, it.get(fr, a))
	}
	return fnv, args, false, nil
}

func (it *Interp) sliceOp(fr *frame, ins *ssa.Slice) Value {
	x := it.get(fr, ins.X)
	var lo, hi, max int64 = 0, -1, -1
	if ins.Low != nil {
		lo = it.concretizeIndex(it.get(fr, ins.Low))
	}
	if ins.High != nil {
		hi = it.concretizeIndex(it.get(fr, ins.High))
	}
	if ins.Max != nil {
		max = it.concretizeIndex(it.get(fr, ins.Max))
	}
	switch x := x.(type) {
	case []Value:
		if hi < 0 {
			hi = int64(len(x))
		}
		if max < 0 {
			max = int64(cap(x))
		}
		if lo < 0 || hi > int64(cap(x)) || lo > hi || max > int64(cap(x)) || hi > max {
			panic(runtimePanic(fmt.Sprintf("slice bounds out of range [%d:%d] with capacity %d", lo, hi, cap(x))))
		}
		if x == nil {
			return []Value(nil)
		}
		return x[lo:hi:max]
	case *Value:
		if x == nil {
			panic(runtimePanic("invalid memory address or nil pointer dereference"))
		}
		a := []Value((*x).(Array))
		if hi < 0 {
			hi = int64(len(a))
		}
		if lo < 0 || hi > int64(len(a)) || lo > hi {
			panic(runtimePanic("slice bounds out of range"))
		}
		return a[lo:hi]
	case string:
		if hi < 0 {
			hi = int64(len(x))
		}
		if lo < 0 || hi > int64(len(x)) || lo > hi {
			panic(runtimePanic(fmt.Sprintf("slice bounds out of range [%d:%d] with length %d", lo, hi, len(x))))
		}
		return x[lo:hi]
	}
	panic(abortPath{fmt.Sprintf("slice %T", x)})
}

func (it *Interp) convert(from, to types.Type, x Value) Value {
	fb, tb := basicOf(from), basicOf(to)
	if tb != nil && tb.Info()&types.IsInteger != 0 {
		switch xv := x.(type) {
		case int64:
			return normInt(xv, rangeOf(to))
		case *Term:
			fr, tr := rangeOf(from), rangeOf(to)
			if fr == tr {
				return xv
			}
			// widening within the same signedness (or unsigned → wider signed) is the identity
			if tr.bits > fr.bits && (tr.signed == fr.signed || !fr.signed) {
				return xv
			}
			return simp(wrapConv(xv, tr))
		case float64:
			return normInt(int64(xv), rangeOf(to))
		}
	}
	if tb != nil && tb.Info()&types.IsFloat != 0 {
		switch xv := x.(type) {
		case int64:
			if fb != nil && fb.Info()&types.IsUnsigned != 0 {
				return float64(uint64(xv))
			}
			return float64(xv)
		case float64:
			return xv
		}
	}
	if tb != nil && tb.Info()&types.IsString != 0 {
		switch xv := x.(type) {
		case string:
			return xv
		case int64:
			return string(rune(xv))
		case []Value:
			if isByteSlice(from) {
				b := make([]byte, len(xv))
				for i, e := range xv {
					b[i] = byte(e.(int64))
				}
				return string(b)
			}
			r := make([]rune, len(xv))
			for i, e := range xv {
				r[i] = rune(e.(int64))
			}
			return string(r)
		}
	}
	if _, ok := to.Underlying().(*types.Slice); ok {
		if s, ok := x.(string); ok {
			if isByteSlice(to) {
				out := make([]Value, len(s))
				for i := 0; i < len(s); i++ {
					out[i] = int64(s[i])
				}
				return out
			}
			var out []Value
			for _, r := range s {
				out = append(out, int64(r))
			}
			return out
		}
		return x
	}
	if _, ok := to.Underlying().(*types.Pointer); ok {
		return x
	}
	if tb != nil && tb.Kind() == types.UnsafePointer {
		return x
	}
	panic(abortPath{fmt.Sprintf("convert %s -> %s (%T)", from, to, x)})
}

func isByteSlice(t types.Type) bool {
	s, ok := t.Underlying().(*types.Slice)
	if !ok {
		return false
	}
	b := basicOf(s.Elem())
	return b != nil && b.Kind() == types.Uint8
}
