package engine

import (
	"fmt"
	"go/types"
	"sort"
	"strconv"
	"strings"

	"golang.org/x/tools/go/ssa"
)

type hostStr string

func (h hostStr) String() string { return string(h) }

type hostErr string

func (h hostErr) Error() string { return string(h) }

// findMethod returns the SSA function of a niladic method `name` on dynamic type t.
func (m *RModel) findMethod(t types.Type, name string) *ssa.Function {
	ms := m.it.prog.MethodSets.MethodSet(t)
	for i := 0; i < ms.Len(); i++ {
		if ms.At(i).Obj().Name() == name {
			return m.it.prog.MethodValue(ms.At(i))
		}
	}
	return nil
}

// toHost renders an interpreter value for fmt.
func (m *RModel) toHost(v Value, depth int) interface{} {
	if depth > 6 {
		return hostStr("...")
	}
	switch v := v.(type) {
	case nil:
		return nil
	case Iface:
		if v.t == nil {
			return nil
		}
		if r, ok := v.v.(*RType); ok {
			return r
		}
		if _, ok := v.v.(*HostObj); ok {
			return hostStr("<host>")
		}
		if fn := m.findMethod(v.t, "Error"); fn != nil && fn.Signature.Params().Len() == 0 && fn.Signature.Results().Len() == 1 {
			if s, ok := m.it.callFn(fn, []Value{v.v}, nil).(string); ok {
				return hostErr(s)
			}
		}
		if fn := m.findMethod(v.t, "String"); fn != nil && fn.Signature.Params().Len() == 0 && fn.Signature.Results().Len() == 1 {
			if s, ok := m.it.callFn(fn, []Value{v.v}, nil).(string); ok {
				return hostStr(s)
			}
		}
		if b := basicOf(v.t); b != nil {
			if iv, ok := v.v.(int64); ok && b.Info()&types.IsUnsigned != 0 {
				return uint64(iv)
			}
		}
		return m.toHost(v.v, depth+1)
	case RValue:
		if !v.valid {
			return hostStr("<invalid reflect.Value>")
		}
		if isIfaceT(v.t) {
			return m.toHost(v.load(), depth+1)
		}
		return m.toHost(Iface{v.t, v.load()}, depth+1)
	case *Term:
		return hostStr("<sym>")
	case Struct:
		parts := make([]string, len(v))
		for i, f := range v {
			parts[i] = fmt.Sprint(m.toHost(f, depth+1))
		}
		return hostStr("{" + strings.Join(parts, " ") + "}")
	case Array:
		parts := make([]string, len(v))
		for i, f := range v {
			parts[i] = fmt.Sprint(m.toHost(f, depth+1))
		}
		return hostStr("[" + strings.Join(parts, " ") + "]")
	case []Value:
		parts := make([]string, len(v))
		for i, f := range v {
			parts[i] = fmt.Sprint(m.toHost(f, depth+1))
		}
		return hostStr("[" + strings.Join(parts, " ") + "]")
	case *Value:
		if v == nil {
			return hostStr("<nil>")
		}
		if _, ok := (*v).(Struct); ok {
			return hostStr("&" + fmt.Sprint(m.toHost(*v, depth+1)))
		}
		return hostStr("0xc000010000")
	case *Map:
		if v == nil {
			return hostStr("map[]")
		}
		var parts []string
		for i, k := range v.keys {
			if v.live[i] {
				parts = append(parts, fmt.Sprint(m.toHost(k, depth+1))+":"+fmt.Sprint(m.toHost(v.vals[i], depth+1)))
			}
		}
		sort.Strings(parts)
		return hostStr("map[" + strings.Join(parts, " ") + "]")
	case *Closure, *MakeFuncObj:
		return hostStr("0x47b0c0")
	case *RType:
		return v
	case *HostObj:
		return hostStr("<host>")
	case Tuple:
		return hostStr("<tuple>")
	}
	return v
}

func (m *RModel) sprintf(format string, args []Value) string {
	hs := make([]interface{}, len(args))
	for i, a := range args {
		hs[i] = m.toHost(a, 0)
	}
	return fmt.Sprintf(format, hs...)
}

func (m *RModel) sprint(args []Value, ln bool) string {
	hs := make([]interface{}, len(args))
	for i, a := range args {
		hs[i] = m.toHost(a, 0)
		if s, ok := hs[i].(hostStr); ok {
			hs[i] = string(s)
		}
	}
	if ln {
		return fmt.Sprintln(hs...)
	}
	return fmt.Sprint(hs...)
}

func strSlice(v Value) []string {
	vs, _ := v.([]Value)
	r := make([]string, len(vs))
	for i, x := range vs {
		r[i] = x.(string)
	}
	return r
}

func valStrings(ss []string) []Value {
	out := make([]Value, len(ss))
	for i, s := range ss {
		out[i] = s
	}
	return out
}

func (m *RModel) buf(p *Value) *strings.Builder {
	b, ok := m.bufs[p]
	if !ok {
		b = &strings.Builder{}
		m.bufs[p] = b
	}
	return b
}

// mkError builds an interpreted *errors.errorString.
func (m *RModel) mkError(msg string) Value {
	ep := m.it.prog.ImportedPackage("errors")
	fn := ep.Func("New")
	return m.it.callFn(fn, []Value{msg}, nil)
}

func (m *RModel) writerBuf(w Value) *strings.Builder {
	if i, ok := w.(Iface); ok {
		if p, ok := i.v.(*Value); ok && p != nil {
			return m.buf(p)
		}
	}
	return nil
}

func (m *RModel) errUnwrap(e Iface) []Iface {
	if e.t == nil {
		return nil
	}
	fn := m.findMethod(e.t, "Unwrap")
	if fn == nil || fn.Signature.Params().Len() != 0 || fn.Signature.Results().Len() != 1 {
		return nil
	}
	r := m.it.callFn(fn, []Value{e.v}, nil)
	switch r := r.(type) {
	case Iface:
		if r.t == nil {
			return nil
		}
		return []Iface{r}
	case []Value:
		var out []Iface
		for _, x := range r {
			if xi, ok := x.(Iface); ok && xi.t != nil {
				out = append(out, xi)
			}
		}
		return out
	}
	return nil
}

func (m *RModel) errorsAs(err Iface, target Iface) bool {
	if target.t == nil {
		panic(rpanic("errors: target cannot be nil"))
	}
	pt, ok := target.t.Underlying().(*types.Pointer)
	tp, _ := target.v.(*Value)
	if !ok || tp == nil {
		panic(rpanic("errors: target must be a non-nil pointer"))
	}
	T := pt.Elem()
	var walk func(e Iface) bool
	walk = func(e Iface) bool {
		if e.t == nil {
			return false
		}
		if m.assignable(e.t, T) {
			if isIfaceT(T) {
				m.it.store(tp, e)
			} else {
				m.it.store(tp, e.v)
			}
			return true
		}
		if fn := m.findMethod(e.t, "As"); fn != nil && fn.Signature.Params().Len() == 1 && fn.Signature.Results().Len() == 1 {
			if b, ok := m.it.callFn(fn, []Value{e.v, target}, nil).(bool); ok && b {
				return true
			}
		}
		for _, u := range m.errUnwrap(e) {
			if walk(u) {
				return true
			}
		}
		return false
	}
	return walk(err)
}

func (m *RModel) errorsIs(err, target Iface) bool {
	var walk func(e Iface) bool
	walk = func(e Iface) bool {
		if e.t == nil {
			return target.t == nil
		}
		if target.t != nil && types.Comparable(target.t) && types.Identical(e.t, target.t) && equalVals(e.v, target.v) {
			return true
		}
		if fn := m.findMethod(e.t, "Is"); fn != nil && fn.Signature.Params().Len() == 1 && fn.Signature.Results().Len() == 1 {
			if b, ok := m.it.callFn(fn, []Value{e.v, target}, nil).(bool); ok && b {
				return true
			}
		}
		for _, u := range m.errUnwrap(e) {
			if walk(u) {
				return true
			}
		}
		return false
	}
	return walk(err)
}

func (m *RModel) extLib(fn *ssa.Function, name string, args []Value) (Value, bool) {
	switch name {
	case "fmt.Sprintf":
		vs, _ := args[1].([]Value)
		return m.sprintf(args[0].(string), vs), true
	case "fmt.Sprint":
		vs, _ := args[0].([]Value)
		return m.sprint(vs, false), true
	case "fmt.Sprintln":
		vs, _ := args[0].([]Value)
		return m.sprint(vs, true), true
	case "fmt.Errorf":
		vs, _ := args[1].([]Value)
		return m.mkError(m.sprintf(args[0].(string), vs)), true
	case "fmt.Fprintf":
		vs, _ := args[2].([]Value)
		s := m.sprintf(args[1].(string), vs)
		if b := m.writerBuf(args[0]); b != nil {
			b.WriteString(s)
		}
		return Tuple{int64(len(s)), Iface{}}, true
	case "fmt.Printf", "fmt.Println", "fmt.Print":
		return Tuple{int64(0), Iface{}}, true
	case "(*bytes.Buffer).String", "(*strings.Builder).String":
		p, _ := args[0].(*Value)
		if p == nil {
			return "<nil>", true
		}
		return m.buf(p).String(), true
	case "(*bytes.Buffer).WriteString", "(*strings.Builder).WriteString":
		m.buf(args[0].(*Value)).WriteString(args[1].(string))
		return Tuple{int64(len(args[1].(string))), Iface{}}, true
	case "(*bytes.Buffer).WriteByte", "(*strings.Builder).WriteByte":
		m.buf(args[0].(*Value)).WriteByte(byte(args[1].(int64)))
		return Iface{}, true
	case "(*bytes.Buffer).WriteRune", "(*strings.Builder).WriteRune":
		n, _ := m.buf(args[0].(*Value)).WriteRune(rune(args[1].(int64)))
		return Tuple{int64(n), Iface{}}, true
	case "(*bytes.Buffer).Len", "(*strings.Builder).Len":
		return int64(m.buf(args[0].(*Value)).Len()), true
	case "(*bytes.Buffer).Reset", "(*strings.Builder).Reset":
		m.buf(args[0].(*Value)).Reset()
		return nil, true
	case "strings.ToLower":
		return strings.ToLower(args[0].(string)), true
	case "strings.ToUpper":
		return strings.ToUpper(args[0].(string)), true
	case "strings.Index":
		return int64(strings.Index(args[0].(string), args[1].(string))), true
	case "strings.IndexByte":
		return int64(strings.IndexByte(args[0].(string), byte(args[1].(int64)))), true
	case "strings.TrimSuffix":
		return strings.TrimSuffix(args[0].(string), args[1].(string)), true
	case "strings.TrimPrefix":
		return strings.TrimPrefix(args[0].(string), args[1].(string)), true
	case "strings.TrimSpace":
		return strings.TrimSpace(args[0].(string)), true
	case "strings.HasPrefix":
		return strings.HasPrefix(args[0].(string), args[1].(string)), true
	case "strings.HasSuffix":
		return strings.HasSuffix(args[0].(string), args[1].(string)), true
	case "strings.Contains":
		return strings.Contains(args[0].(string), args[1].(string)), true
	case "strings.EqualFold":
		return strings.EqualFold(args[0].(string), args[1].(string)), true
	case "strings.Repeat":
		return strings.Repeat(args[0].(string), int(args[1].(int64))), true
	case "strings.Replace":
		return strings.Replace(args[0].(string), args[1].(string), args[2].(string), int(args[3].(int64))), true
	case "strings.ReplaceAll":
		return strings.ReplaceAll(args[0].(string), args[1].(string), args[2].(string)), true
	case "strings.Join":
		return strings.Join(strSlice(args[0]), args[1].(string)), true
	case "strings.Split":
		return valStrings(strings.Split(args[0].(string), args[1].(string))), true
	case "strings.SplitN":
		return valStrings(strings.SplitN(args[0].(string), args[1].(string), int(args[2].(int64)))), true
	case "strings.Cut":
		a, b, ok := strings.Cut(args[0].(string), args[1].(string))
		return Tuple{a, b, ok}, true
	case "strings.Title":
		return strings.Title(args[0].(string)), true
	case "strings.LastIndex":
		return int64(strings.LastIndex(args[0].(string), args[1].(string))), true
	case "strings.Count":
		return int64(strings.Count(args[0].(string), args[1].(string))), true
	case "strings.Fields":
		return valStrings(strings.Fields(args[0].(string))), true
	case "strconv.Itoa":
		return strconv.Itoa(int(args[0].(int64))), true
	case "strconv.Quote":
		return strconv.Quote(args[0].(string)), true
	case "strconv.Atoi":
		n, err := strconv.Atoi(args[0].(string))
		if err != nil {
			return Tuple{int64(0), m.mkError(err.Error())}, true
		}
		return Tuple{int64(n), Iface{}}, true
	case "sort.Strings":
		vs, _ := args[0].([]Value)
		ss := strSlice(vs)
		sort.Strings(ss)
		for i := range vs {
			vs[i] = ss[i]
		}
		return nil, true
	case "sort.Ints":
		vs, _ := args[0].([]Value)
		sort.Slice(vs, func(i, j int) bool { return vs[i].(int64) < vs[j].(int64) })
		return nil, true
	case "sort.Slice", "sort.SliceStable":
		i0, _ := args[0].(Iface)
		vs, _ := i0.v.([]Value)
		less := args[1]
		// insertion sort driven by the interpreted comparison (stable, deterministic)
		for i := 1; i < len(vs); i++ {
			for j := i; j > 0; j-- {
				b, ok := m.it.callValue(less, []Value{int64(j), int64(j - 1)}).(bool)
				if !ok {
					panic(abortPath{"sort.Slice with symbolic comparison"})
				}
				if !b {
					break
				}
				vs[j], vs[j-1] = vs[j-1], vs[j]
			}
		}
		return nil, true
	case "errors.As":
		e, _ := args[0].(Iface)
		t, _ := args[1].(Iface)
		return m.errorsAs(e, t), true
	case "errors.Is":
		e, _ := args[0].(Iface)
		t, _ := args[1].(Iface)
		return m.errorsIs(e, t), true
	case "errors.Unwrap":
		e, _ := args[0].(Iface)
		us := m.errUnwrap(e)
		if len(us) == 1 {
			return us[0], true
		}
		return Iface{}, true
	case "(*sync.Map).Load", "(*sync.Map).Store", "(*sync.Map).LoadOrStore", "(*sync.Map).Delete", "(*sync.Map).LoadAndDelete", "(*sync.Map).Range", "(*sync.Map).Swap", "(*sync.Map).Clear":
		return m.syncMap(name[len("(*sync.Map)."):], args), true
	case "os.Getenv":
		return "", true
	case "(*sync.Mutex).Lock", "(*sync.Mutex).Unlock", "(*sync.RWMutex).Lock", "(*sync.RWMutex).Unlock",
		"(*sync.RWMutex).RLock", "(*sync.RWMutex).RUnlock":
		return m.it.syncOp(name, args), true
	case "(*sync.Once).Do":
		return m.it.syncOp(name, args), true
	}
	if strings.HasPrefix(name, "sync/atomic.") || strings.HasPrefix(name, "(*sync/atomic.") {
		return m.it.syncOp(name, args), true
	}
	return nil, false
}

// syncMap models sync.Map with an interpreter map kept in a side table keyed by
// the receiver (sequential semantics; its operations are atomic).
func (m *RModel) syncMap(op string, args []Value) Value {
	recv, _ := args[0].(*Value)
	if recv == nil {
		panic(runtimePanic("invalid memory address or nil pointer dereference"))
	}
	if m.syncMaps == nil {
		m.syncMaps = map[*Value]*Map{}
	}
	mp := m.syncMaps[recv]
	if mp == nil {
		mp = newMap()
		m.syncMaps[recv] = mp
	}
	if m.it.shared != nil && m.it.shared[recv] && (op == "Store" || op == "LoadOrStore" || op == "Delete" || op == "LoadAndDelete" || op == "Swap" || op == "Clear") {
		// a concurrent-safe container: not an unguarded write
	}
	switch op {
	case "Load":
		v, ok := mp.get(args[1])
		if !ok {
			return Tuple{Iface{}, false}
		}
		return Tuple{v, true}
	case "Store":
		mp.set(args[1], args[2])
		return nil
	case "LoadOrStore":
		if v, ok := mp.get(args[1]); ok {
			return Tuple{v, true}
		}
		mp.set(args[1], args[2])
		return Tuple{args[2], false}
	case "Swap":
		old, ok := mp.get(args[1])
		mp.set(args[1], args[2])
		if !ok {
			return Tuple{Iface{}, false}
		}
		return Tuple{old, true}
	case "Delete":
		mp.del(args[1])
		return nil
	case "LoadAndDelete":
		v, ok := mp.get(args[1])
		mp.del(args[1])
		if !ok {
			return Tuple{Iface{}, false}
		}
		return Tuple{v, true}
	case "Clear":
		m.syncMaps[recv] = newMap()
		return nil
	case "Range":
		for i, k := range mp.keys {
			if !mp.live[i] {
				continue
			}
			r := m.it.callValue(args[1], []Value{k, mp.vals[i]})
			if b, ok := r.(bool); ok && !b {
				break
			}
		}
		return nil
	}
	panic(abortPath{"sync.Map." + op})
}
