package engine

import (
	"encoding/json"
	"fmt"
	"os"
	"path/filepath"
	"sort"
	"strings"
	"time"
)

// KnownFindings is /verif/known_findings.json (read-only at run time).
type KnownFindings struct {
	Findings []KnownFinding `json:"findings"`
	Fixed    []string       `json:"fixed"`
}

type KnownFinding struct {
	ID         string   `json:"id"`
	Properties []string `json:"properties"`
	What       string   `json:"what"`
}

func loadKnown(dir string) *KnownFindings {
	kf := &KnownFindings{}
	b, err := os.ReadFile(filepath.Join(dir, "known_findings.json"))
	if err != nil {
		return kf
	}
	json.Unmarshal(b, kf)
	return kf
}

func (kf *KnownFindings) match(prop, finding string) *KnownFinding {
	if finding == "" {
		return nil
	}
	for i := range kf.Findings {
		f := &kf.Findings[i]
		if f.ID != finding {
			continue
		}
		for _, p := range f.Properties {
			if p == prop {
				return f
			}
		}
	}
	return nil
}

// CheckProperty runs one property's check and returns the process exit code.
func CheckProperty(cfg *Config, id string) int {
	t0 := time.Now()
	spec := Props[id]
	if spec == nil {
		fmt.Printf("INCONCLUSIVE unknown property %s\n", id)
		return 3
	}
	shards := spec.Quick
	cv := spec.CVQuick
	if cfg.Tier == "thorough" && len(spec.Thorough) > 0 {
		// the thorough tier is a superset of the quick tier: quick shards that the
		// thorough list does not name are appended
		shards = append([]Shard{}, spec.Thorough...)
		have := map[string]bool{}
		for _, s := range shards {
			have[fmt.Sprint(s.Entry, s.Args)] = true
		}
		for _, s := range spec.Quick {
			if !have[fmt.Sprint(s.Entry, s.Args)] {
				shards = append(shards, s)
			}
		}
		cv = spec.CVThor
	}
	if os.Getenv("GOSE_NOCV") != "" {
		cv = 0
	}
	scratch, err := os.MkdirTemp("", "gose-")
	if err != nil {
		fmt.Println("INCONCLUSIVE", err)
		return 3
	}
	defer os.RemoveAll(scratch)
	ld, err := Load(cfg, spec.Pkg, scratch)
	if err != nil {
		fmt.Println("INCONCLUSIVE load failed:", err)
		return 3
	}
	if a := os.Getenv("GOSE_ADHOC"); a != "" {
		// GOSE_ADHOC="Entry:1,2,3" runs one ad-hoc shard (development aid)
		parts := strings.SplitN(a, ":", 2)
		var args []int64
		for _, x := range strings.Split(parts[1], ",") {
			var v int64
			fmt.Sscan(x, &v)
			args = append(args, v)
		}
		shards = []Shard{{Entry: parts[0], Args: args, Name: "adhoc " + a}}
	}
	if os.Getenv("GOSE_COUNT") != "" {
		ents := map[string]bool{}
		for _, s := range shards {
			ents[s.Entry] = true
		}
		var es []string
		for e := range ents {
			es = append(es, e)
		}
		sort.Strings(es)
		fmt.Println("SHARDS", len(shards), strings.Join(es, ","))
		return 0
	}
	if f := os.Getenv("GOSE_SHARD"); f != "" {
		var sel []Shard
		for i, s := range shards {
			if fmt.Sprint(i) == f {
				sel = append(sel, s)
			}
		}
		shards = sel
	}
	res, err := RunShards(cfg, ld, shards, cv)
	if err != nil {
		fmt.Println("INCONCLUSIVE run failed:", err)
		return 3
	}

	kf := loadKnown(cfg.VerifDir)
	var inconclusive []string
	paths, infeasible, asserts, discharged, decisions, solved := 0, 0, 0, 0, 0, 0
	covers := map[string]int{}
	var violations []Violation
	var samples []interface{}
	var shardReports []map[string]interface{}
	for i, ss := range res.Shards {
		paths += ss.Paths - ss.Infeasible
		infeasible += ss.Infeasible
		asserts += ss.Asserts
		discharged += ss.Discharged
		decisions += ss.Decisions
		solved += ss.Solved
		for c, n := range ss.Covers {
			covers[c] += n
		}
		for k, n := range ss.Aborted {
			inconclusive = append(inconclusive, fmt.Sprintf("shard %d: %d path(s) aborted: %s", i, n, k))
		}
		if ss.Paths-ss.Infeasible-countAborted(ss.Aborted) <= 0 {
			inconclusive = append(inconclusive, fmt.Sprintf("shard %d (%s) has no feasible completed path: its assumptions are unsatisfiable", i, ss.Shard.Name))
		}
		if ss.Truncated {
			inconclusive = append(inconclusive, fmt.Sprintf("shard %d: path budget %d exhausted before the frontier emptied", i, ss.Shard.MaxPaths))
		}
		violations = append(violations, ss.Violations...)
		for _, s := range ss.Samples {
			if len(samples) < 12 {
				samples = append(samples, s)
			}
		}
		shardReports = append(shardReports, map[string]interface{}{
			"shard": ss.Shard.Name, "entry": ss.Shard.Entry, "args": ss.Shard.Args,
			"paths": ss.Paths - ss.Infeasible, "infeasible_prefixes": ss.Infeasible,
			"assertions": ss.Asserts, "discharged_unsat": ss.Discharged, "violations": len(ss.Violations),
			"panics": ss.Panics, "divergences": ss.Divergences, "ssa_steps": ss.Steps,
		})
		if cfg.Verbose {
			fmt.Printf("shard %d %-40s paths=%d infeasible=%d asserts=%d discharged=%d violations=%d aborted=%v\n", i, ss.Shard.Name, ss.Paths-ss.Infeasible, ss.Infeasible, ss.Asserts, ss.Discharged, len(ss.Violations), ss.Aborted)
		}
	}
	for _, c := range spec.Covers {
		if covers[c] == 0 {
			inconclusive = append(inconclusive, "cover never reached on a feasible path: "+c)
		}
	}

	// classify violations: known findings vs candidates; replay candidates natively
	replayDir := filepath.Join(cfg.VerifDir, "replays", id)
	os.RemoveAll(replayDir)
	knownHit := map[string]int{}
	knownExample := map[string]string{}
	type cand struct {
		v    Violation
		path string
	}
	byLabel := map[string][]Violation{}
	var labels []string
	for _, v := range violations {
		if f := kf.match(id, v.Finding); f != nil {
			knownHit[f.ID]++
			if _, ok := knownExample[f.ID]; !ok {
				knownExample[f.ID] = v.Label + " | " + v.Note
			}
			continue
		}
		if _, ok := byLabel[v.Label]; !ok {
			labels = append(labels, v.Label)
		}
		byLabel[v.Label] = append(byLabel[v.Label], v)
	}
	sort.Strings(labels)
	if cfg.Verbose {
		seenLN := map[string]int{}
		var order []string
		for _, v := range violations {
			k := v.Finding + " | " + v.Label + " | " + v.Note
			if seenLN[k] == 0 {
				order = append(order, k)
			}
			seenLN[k]++
		}
		for i, k := range order {
			if i >= 60 {
				fmt.Printf("  ... %d more distinct candidates\n", len(order)-i)
				break
			}
			fmt.Printf("  candidate x%d: %s\n", seenLN[k], k)
		}
	}
	var confirmed []string
	var unconfirmed []string
	nReplayed := 0
	for _, l := range labels {
		if len(confirmed) >= 4 {
			break // enough natively confirmed counterexamples; the rest are listed in the evidence
		}
		vs := byLabel[l]
		// try up to 3 counterexamples per label
		ok := false
		for k := 0; k < len(vs) && k < 3 && !ok; k++ {
			v := vs[k]
			sp := shardOf(res, v)
			path, err := writeReplay(replayDir, id, nReplayed, sp, v)
			nReplayed++
			if err != nil {
				unconfirmed = append(unconfirmed, fmt.Sprintf("%s: cannot write replay: %v", l, err))
				continue
			}
			rr := replayNative(cfg, ld, spec, path)
			if rr.Reproduced {
				ok = true
				confirmed = append(confirmed, path)
				fmt.Printf("VIOLATION property=%s replay=%s label=%q mode=%s paths=%d note=%q\n", id, path, l, rr.Mode, len(vs), v.Note)
			} else if k == len(vs)-1 || k == 2 {
				unconfirmed = append(unconfirmed, fmt.Sprintf("%s: counterexample did not reproduce natively (%s) replay=%s", l, rr.Detail, path))
			}
		}
	}
	for _, u := range unconfirmed {
		inconclusive = append(inconclusive, "unreproduced counterexample: "+u)
	}
	var kfIDs []string
	for k := range knownHit {
		kfIDs = append(kfIDs, k)
	}
	sort.Strings(kfIDs)
	for _, k := range kfIDs {
		f := kf.match(id, k)
		fmt.Printf("KNOWN-FINDING: property=%s finding=%s %s (matched %d path(s), e.g. %s)\n", id, k, f.What, knownHit[k], knownExample[k])
	}

	// cross-validate sampled paths against the native build
	cvDone, cvBad := 0, []string{}
	if cv > 0 && len(confirmed) == 0 {
		cvDone, cvBad = crossValidate(cfg, ld, spec, res, filepath.Join(scratch, "cv"), kf)
		for _, b := range cvBad {
			inconclusive = append(inconclusive, "cross-validation disagreement: "+b)
		}
	}

	wall := time.Since(t0)
	writeEvidence(cfg, spec, ld, res, evidenceSummary{
		paths: paths, infeasible: infeasible, asserts: asserts, discharged: discharged, decisions: decisions, solved: solved,
		covers: covers, samples: samples, shards: shardReports, violations: len(confirmed), known: knownHit,
		inconclusive: inconclusive, cv: cvDone, wall: wall, candidates: len(violations),
	})
	fmt.Printf("%s %s: %d paths, %d assertions (%d unsat), %d solver queries in %.1fs solver time, %d known-finding paths, %d confirmed violation label(s), wall %.1fs\n",
		id, cfg.Tier, paths, asserts, discharged, res.Solver.Queries, res.Solver.Dur.Seconds(), len(violations)-countUnknown(violations, kf, id), len(confirmed), wall.Seconds())
	if len(confirmed) > 0 {
		return 1
	}
	if len(inconclusive) > 0 {
		for _, s := range inconclusive {
			fmt.Println("INCONCLUSIVE", s)
		}
		return 3
	}
	return 0
}

func countUnknown(vs []Violation, kf *KnownFindings, id string) int {
	n := 0
	for _, v := range vs {
		if kf.match(id, v.Finding) == nil {
			n++
		}
	}
	return n
}

func shardOf(res *RunResult, v Violation) Shard {
	for _, ss := range res.Shards {
		for _, x := range ss.Violations {
			if x.Label == v.Label && x.Note == v.Note && fmt.Sprint(x.Model) == fmt.Sprint(v.Model) {
				return ss.Shard
			}
		}
	}
	return res.Shards[0].Shard
}

type evidenceSummary struct {
	paths, infeasible, asserts, discharged, decisions, solved int
	covers                                                    map[string]int
	samples                                                   []interface{}
	shards                                                    []map[string]interface{}
	violations                                                int
	candidates                                                int
	known                                                     map[string]int
	inconclusive                                              []string
	cv                                                        int
	wall                                                      time.Duration
}

func writeEvidence(cfg *Config, spec *PropSpec, ld *Loaded, res *RunResult, s evidenceSummary) {
	var funcs []string
	anch := map[string]string{}
	for name, c := range res.Funcs {
		if strings.Contains(name, repoPath) || strings.HasPrefix(name, "container/heap") {
			if !strings.Contains(name, ".Harness") && !strings.Contains(name, ".vn") && !strings.Contains(name, ".h") || strings.Contains(name, "heap") {
				funcs = append(funcs, fmt.Sprintf("%s [%d/%d blocks]", strings.ReplaceAll(name, repoPath, "…"), c[0], c[1]))
			}
		}
		for _, a := range spec.Anchored {
			if a == name {
				anch[strings.ReplaceAll(name, repoPath, "…")] = fmt.Sprintf("%d/%d blocks", c[0], c[1])
			}
		}
	}
	sort.Strings(funcs)
	var exts []string
	for k, v := range res.Externals {
		exts = append(exts, fmt.Sprintf("%s x%d", k, v))
	}
	sort.Strings(exts)
	var cuts []string
	for k, v := range res.Cuts {
		cuts = append(cuts, fmt.Sprintf("%s x%d", k, v))
	}
	sort.Strings(cuts)
	if len(s.samples) == 0 {
		s.samples = []interface{}{"(no path produced a note)"}
	}
	states := s.paths
	if states < 1 {
		states = 1
	}
	trans := s.decisions
	if trans < 1 {
		trans = 1
	}
	cov := map[string]interface{}{
		"states":                        states,
		"transitions":                   trans,
		"traces_validated_against_impl": s.cv,
		"samples":                       s.samples,
		"explanation":                   "states = completed symbolic paths (solver-certified cells of the bounded input space); transitions = branch decisions taken, of which solver_decided needed the solver; every assertion is the query PC ∧ ¬property, unsat = holds for all values of the symbolic inputs on that path",
		"solver_decided_branches":       s.solved,
		"infeasible_prefixes_pruned":    s.infeasible,
		"obligations":                   s.asserts,
		"discharged":                    s.discharged,
		"counterexample_candidates":     s.candidates,
		"functions_encoded":             funcs,
		"anchored_block_coverage":       anch,
		"externals_modelled":            exts,
		"functions_cut":                 cuts,
		"bounds":                        spec.Bounds,
		"outside_bounds":                spec.Outside,
		"shards":                        s.shards,
		"covers":                        s.covers,
		"solver": map[string]interface{}{
			"name": cfg.Solver, "version": solverVersion(cfg.Solver), "queries": res.Solver.Queries, "sat": res.Solver.Sat,
			"unsat": res.Solver.Unsat, "unknown": res.Solver.Unknown, "unknown_retried_on_fallback_solvers": res.Solver.Retries, "rescued_by_fallback": res.Solver.Rescued,
			"queries_cross_checked_on_z3new_and_cvc5": res.Solver.Diffed, "cross_check_disagreements": res.Solver.Disagree, "cross_check_sampling": fmt.Sprintf("every %d-th decided query", diffEvery), "seconds": res.Solver.Dur.Seconds(), "max_query_seconds": res.Solver.MaxQuery.Seconds(),
		},
		"ssa_instructions_executed": res.Steps,
		"known_findings_matched":    s.known,
		"inconclusive":              s.inconclusive,
		"harness_files":             ld.Harness,
		"repo":                      cfg.Repo,
		"load_build_seconds":        ld.LoadTime.Seconds(),
		"exhaustive":                len(s.inconclusive) == 0,
	}
	ev := map[string]interface{}{
		"property_id": spec.ID,
		"tier":        cfg.Tier,
		"seed":        cfg.Seed,
		"level":       "model_checking",
		"coverage":    cov,
		"assumptions": append(append([]string{}, spec.Assume...), "go/packages + go/ssa v0.29.0 build the program the compiler builds", "the engine's SSA semantics, memory model and reflect model (cross-validated natively on sampled paths)", "solver verdicts (z3 4.8.12)"),
		"wall_s":      s.wall.Seconds(),
		"violations":  s.violations,
	}
	b, _ := json.MarshalIndent(ev, "", " ")
	dir := filepath.Join(cfg.VerifDir, "evidence")
	os.MkdirAll(dir, 0o755)
	os.WriteFile(filepath.Join(dir, spec.ID+".json"), b, 0o644)
}

func countAborted(m map[string]int) int {
	n := 0
	for _, v := range m {
		n += v
	}
	return n
}
