package engine

import (
	"strings"
)

// takeEpoch marks every cell and map reachable from the given roots (and from
// the repository's package-level variables) as "shared": from now on every
// store to such a cell is recorded (C12's non-interference oracle).
func (it *Interp) takeEpoch(roots []Value) {
	it.shared = map[*Value]bool{}
	it.sharedMaps = map[*Map]bool{}
	it.sharedWrites = nil
	seenSlices := map[*Value]bool{}
	var walk func(v Value)
	walkCell := func(p *Value) {
		if p == nil || it.shared[p] {
			return
		}
		it.shared[p] = true
		walk(*p)
	}
	walk = func(v Value) {
		switch v := v.(type) {
		case Struct:
			for i := range v {
				walkCell(&v[i])
			}
		case Array:
			for i := range v {
				walkCell(&v[i])
			}
		case []Value:
			if v == nil || cap(v) == 0 {
				return
			}
			full := v[:cap(v)]
			if seenSlices[&full[0]] {
				return
			}
			seenSlices[&full[0]] = true
			for i := range full {
				walkCell(&full[i])
			}
		case *Value:
			walkCell(v)
		case *Map:
			if v == nil || it.sharedMaps[v] {
				return
			}
			it.sharedMaps[v] = true
			for i := range v.keys {
				if v.live[i] {
					walk(v.keys[i])
					walkCell(&v.vals[i])
				}
			}
		case Iface:
			walk(v.v)
		case *Closure:
			if v != nil {
				for _, b := range v.env {
					walk(b)
				}
			}
		case *MakeFuncObj:
			if v != nil {
				walk(v.fn)
			}
		case RValue:
			if v.p != nil {
				walkCell(v.p)
			} else {
				walk(v.v)
			}
		case Tuple:
			for _, x := range v {
				walk(x)
			}
		}
	}
	for _, r := range roots {
		walk(r)
	}
	for g, p := range it.globals {
		if g.Pkg != nil && strings.HasPrefix(g.Pkg.Pkg.Path(), repoPath) && !strings.HasPrefix(g.Name(), "vn") {
			walkCell(p)
		}
	}
}

// syncOp is the sequential model of sync / sync/atomic primitives: locks are
// counted (stores made while holding any lock are not reported as unguarded
// shared writes), Once runs its function once.
func (it *Interp) syncOp(name string, args []Value) Value {
	switch {
	case it.par != nil && (strings.HasSuffix(name, ").Lock") || strings.HasSuffix(name, ").RLock")):
		it.parLock(args[0].(*Value))
		return nil
	case it.par != nil && (strings.HasSuffix(name, ").Unlock") || strings.HasSuffix(name, ").RUnlock")):
		it.parUnlock(args[0].(*Value))
		return nil
	case strings.HasSuffix(name, ").Lock"), strings.HasSuffix(name, ").RLock"):
		it.rm.locksHeld++
		return nil
	case strings.HasSuffix(name, ").Unlock"), strings.HasSuffix(name, ").RUnlock"):
		if it.rm.locksHeld == 0 {
			panic(targetPanic{mkStringIface("fatal error: sync: unlock of unlocked mutex")})
		}
		it.rm.locksHeld--
		return nil
	case name == "(*sync.Once).Do":
		p := args[0].(*Value)
		if it.rm.onceDone == nil {
			it.rm.onceDone = map[*Value]bool{}
		}
		if !it.rm.onceDone[p] {
			it.rm.onceDone[p] = true
			it.callValue(args[1], nil)
		}
		return nil
	}
	panic(abortPath{"sync primitive not modelled: " + name})
}
