package engine

import (
	"go/types"
	"strings"
)

// takeEpoch marks every cell and map reachable from the given roots (and from
// the repository's package-level variables) as "shared": from now on every
// store to such a cell is recorded (C12's non-interference oracle).
func (it *Interp) takeEpoch(roots []Value) {
	it.shared = map[*Value]bool{}
	it.sharedMaps = map[*Map]bool{}
	it.sharedWrites = nil
	seenSlices := map[*Value]bool{}
	var walk func(v Value)
	walkCell := func(p *Value) {
		if p == nil || it.shared[p] {
			return
		}
		it.shared[p] = true
		walk(*p)
	}
	walk = func(v Value) {
		switch v := v.(type) {
		case Struct:
			for i := range v {
				walkCell(&v[i])
			}
		case Array:
			for i := range v {
				walkCell(&v[i])
			}
		case []Value:
			if v == nil || cap(v) == 0 {
				return
			}
			full := v[:cap(v)]
			if seenSlices[&full[0]] {
				return
			}
			seenSlices[&full[0]] = true
			for i := range full {
				walkCell(&full[i])
			}
		case *Value:
			walkCell(v)
		case *Map:
			if v == nil || it.sharedMaps[v] {
				return
			}
			it.sharedMaps[v] = true
			for i := range v.keys {
				if v.live[i] {
					walk(v.keys[i])
					walkCell(&v.vals[i])
				}
			}
		case Iface:
			walk(v.v)
		case *Closure:
			if v != nil {
				for _, b := range v.env {
					walk(b)
				}
			}
		case *MakeFuncObj:
			if v != nil {
				walk(v.fn)
			}
		case RValue:
			if v.p != nil {
				walkCell(v.p)
			} else {
				walk(v.v)
			}
		case Tuple:
			for _, x := range v {
				walk(x)
			}
		}
	}
	for _, r := range roots {
		walk(r)
	}
	for g, p := range it.globals {
		if g.Pkg != nil && strings.HasPrefix(g.Pkg.Pkg.Path(), repoPath) && !strings.HasPrefix(g.Name(), "vn") {
			walkCell(p)
		}
	}
}

// syncOp is the sequential model of sync / sync/atomic primitives: locks are
// counted (stores made while holding any lock are not reported as unguarded
// shared writes), Once runs its function once.
func (it *Interp) syncOp(name string, args []Value) Value {
	switch {
	case it.par != nil && (strings.HasSuffix(name, ").Lock") || strings.HasSuffix(name, ").RLock")):
		it.parLock(args[0].(*Value))
		return nil
	case it.par != nil && (strings.HasSuffix(name, ").Unlock") || strings.HasSuffix(name, ").RUnlock")):
		it.parUnlock(args[0].(*Value))
		return nil
	case strings.HasSuffix(name, ").Lock"), strings.HasSuffix(name, ").RLock"):
		it.rm.locksHeld++
		m, _ := args[0].(*Value)
		it.rm.held = append(it.rm.held, m)
		return nil
	case strings.HasSuffix(name, ").Unlock"), strings.HasSuffix(name, ").RUnlock"):
		if it.rm.locksHeld == 0 {
			panic(targetPanic{mkStringIface("fatal error: sync: unlock of unlocked mutex")})
		}
		it.rm.locksHeld--
		m, _ := args[0].(*Value)
		for i := len(it.rm.held) - 1; i >= 0; i-- {
			if it.rm.held[i] == m {
				it.rm.held = append(it.rm.held[:i:i], it.rm.held[i+1:]...)
				break
			}
		}
		return nil
	case name == "(*sync.Once).Do":
		p := args[0].(*Value)
		if it.rm.onceDone == nil {
			it.rm.onceDone = map[*Value]bool{}
			it.rm.onceRunning = map[*Value]int{}
		}
		if it.par != nil {
			it.parYield()
			// another goroutine is inside Do: wait until it is done
			for {
				owner, running := it.rm.onceRunning[p]
				if !running || owner == it.par.cur+1 {
					break
				}
				other := it.par.threads[1-it.par.cur]
				if other.done {
					panic(targetPanic{mkStringIface("fatal error: all goroutines are asleep - deadlock! (sync.Once)")})
				}
				it.parSwitch()
			}
		}
		if !it.rm.onceDone[p] {
			if _, re := it.rm.onceRunning[p]; re {
				panic(targetPanic{mkStringIface("fatal error: all goroutines are asleep - deadlock! (recursive sync.Once.Do)")})
			}
			me := 1
			if it.par != nil {
				me = it.par.cur + 1
			}
			it.rm.onceRunning[p] = me
			it.rm.locksHeld++ // the body of Do is a critical section
			func() {
				defer func() {
					it.rm.locksHeld--
					delete(it.rm.onceRunning, p)
					it.rm.onceDone[p] = true
				}()
				it.callValue(args[1], nil)
			}()
			if it.par != nil {
				it.parYield()
			}
		}
		if it.rm.oncePassed == nil {
			it.rm.oncePassed = map[oncePass]bool{}
		}
		it.rm.oncePassed[oncePass{p, it.threadID()}] = true
		return nil
	}
	if strings.HasPrefix(name, "(*sync/atomic.") {
		return it.atomicMethod(name, args)
	}
	if strings.HasPrefix(name, "sync/atomic.") {
		op := strings.TrimPrefix(name, "sync/atomic.")
		p, _ := args[0].(*Value)
		if p == nil {
			panic(runtimePanic("invalid memory address or nil pointer dereference"))
		}
		if it.par != nil {
			it.parYield() // an atomic operation is a scheduling point
		}
		switch {
		case strings.HasPrefix(op, "Load"):
			return copyVal(*p)
		case strings.HasPrefix(op, "Store"):
			storeRaw(p, args[1]) // atomic: not an unguarded write
			return nil
		case strings.HasPrefix(op, "Swap"):
			old := copyVal(*p)
			storeRaw(p, args[1])
			return old
		case strings.HasPrefix(op, "CompareAndSwap"):
			eq := eqTerm(*p, args[1])
			b, ok := eq.(bool)
			if !ok {
				b = it.ex.decide(eq.(*Term))
			}
			if b {
				storeRaw(p, args[2])
			}
			return b
		case strings.HasPrefix(op, "Add"), strings.HasPrefix(op, "And"), strings.HasPrefix(op, "Or"):
			cur, ok1 := (*p).(int64)
			d, ok2 := args[1].(int64)
			if !ok1 || !ok2 {
				panic(abortPath{"symbolic atomic arithmetic"})
			}
			var nv int64
			switch {
			case strings.HasPrefix(op, "Add"):
				nv = cur + d
			case strings.HasPrefix(op, "And"):
				nv = cur & d
			default:
				nv = cur | d
			}
			if strings.Contains(op, "32") {
				if strings.Contains(op, "Uint") {
					nv = normInt(nv, intRange{32, false})
				} else {
					nv = normInt(nv, intRange{32, true})
				}
			}
			storeRaw(p, nv)
			if strings.HasPrefix(op, "Add") {
				return nv
			}
			return cur
		}
	}
	panic(abortPath{"sync primitive not modelled: " + name})
}

// atomicMethod models the methods of sync/atomic's types (Value, Bool, Int32,
// Int64, Uint32, Uint64): the payload is the last field of the struct; every
// operation is a scheduling point under vnPar and is never an unguarded access.
func (it *Interp) atomicMethod(name string, args []Value) Value {
	i := strings.Index(name, ").")
	typ, op := name[len("(*sync/atomic."):i], name[i+2:]
	p, _ := args[0].(*Value)
	if p == nil {
		panic(runtimePanic("invalid memory address or nil pointer dereference"))
	}
	st, ok := (*p).(Struct)
	if !ok || len(st) == 0 {
		panic(abortPath{"sync primitive not modelled: " + name})
	}
	cell := &st[len(st)-1]
	if it.par != nil {
		it.parYield()
	}
	isNilIface := func(v Value) bool {
		f, ok := v.(Iface)
		return !ok || f.t == nil
	}
	switch typ {
	case "Value":
		switch op {
		case "Load":
			if isNilIface(*cell) {
				return Iface{}
			}
			return copyVal(*cell)
		case "Store":
			if isNilIface(args[1]) {
				panic(targetPanic{mkStringIface("sync/atomic: store of nil value into Value")})
			}
			if old, ok := (*cell).(Iface); ok && old.t != nil && !types.Identical(old.t, args[1].(Iface).t) {
				panic(targetPanic{mkStringIface("sync/atomic: store of inconsistently typed value into Value")})
			}
			storeRaw(cell, args[1])
			return nil
		case "Swap":
			old := Value(Iface{})
			if !isNilIface(*cell) {
				old = copyVal(*cell)
			}
			storeRaw(cell, args[1])
			return old
		}
	case "Bool":
		switch op {
		case "Load":
			v, _ := (*cell).(int64)
			return v != 0
		case "Store", "Swap":
			old, _ := (*cell).(int64)
			nv := int64(0)
			if b, _ := args[1].(bool); b {
				nv = 1
			}
			storeRaw(cell, nv)
			if op == "Swap" {
				return old != 0
			}
			return nil
		case "CompareAndSwap":
			cur, _ := (*cell).(int64)
			o, _ := args[1].(bool)
			if (cur != 0) == o {
				nv := int64(0)
				if b, _ := args[2].(bool); b {
					nv = 1
				}
				storeRaw(cell, nv)
				return true
			}
			return false
		}
	case "Int32", "Int64", "Uint32", "Uint64":
		switch op {
		case "Load":
			return copyVal(*cell)
		case "Store":
			storeRaw(cell, args[1])
			return nil
		case "Swap":
			old := copyVal(*cell)
			storeRaw(cell, args[1])
			return old
		case "Add":
			cur, ok1 := (*cell).(int64)
			d, ok2 := args[1].(int64)
			if !ok1 || !ok2 {
				panic(abortPath{"symbolic atomic arithmetic"})
			}
			bits, signed := 64, !strings.HasPrefix(typ, "U")
			if strings.HasSuffix(typ, "32") {
				bits = 32
			}
			nv := normInt(cur+d, intRange{bits, signed})
			storeRaw(cell, nv)
			return nv
		case "CompareAndSwap":
			eq := eqTerm(*cell, args[1])
			b, ok := eq.(bool)
			if !ok {
				b = it.ex.decide(eq.(*Term))
			}
			if b {
				storeRaw(cell, args[2])
			}
			return b
		}
	}
	panic(abortPath{"sync primitive not modelled: " + name})
}
