package engine

import (
	"fmt"
	"go/types"
	"math/rand"
	"os"
	"path/filepath"
	"sort"
	"strings"
	"sync"
	"time"

	"golang.org/x/tools/go/packages"
	"golang.org/x/tools/go/ssa"
	"golang.org/x/tools/go/ssa/ssautil"
)

// Config is everything a run needs to know.
type Config struct {
	Repo       string // repository under test (default /repo, VERIF_REPO overrides)
	VerifDir   string // /verif
	Solver     string
	Workers    int
	Seed       int64
	Tier       string
	TimeoutMs  int
	DiffSolver string // re-discharge assertion queries on a second solver ("" = off)
	Verbose    bool
}

// Shard is one concrete template instance: a harness entry point plus its
// concrete arguments.
type Shard struct {
	Entry    string
	Args     []int64
	Name     string
	MaxPaths int
}

// Loaded is the SSA program built from the repository's current working tree
// plus the overlaid harness files.
type Loaded struct {
	Prog     *ssa.Program
	Pkg      *ssa.Package
	PkgDir   string // directory of the package inside the repo
	PkgPath  string
	Overlay  map[string]string // virtual path → real harness file
	LoadTime time.Duration
	Harness  []string
}

func pkgRel(pkg string) string {
	if pkg == "graph" {
		return "internal/graph"
	}
	return "."
}

// harnessOverlay maps harness files into the package directory of the repo.
// Files named *.go in /verif/harness/<pkg>/ are overlaid as zz_<name>.go; the
// shared intrinsic file harness/vn.go.tmpl is instantiated for the package.
func harnessOverlay(cfg *Config, pkg string, scratch string) (map[string]string, error) {
	dir := filepath.Join(cfg.Repo, pkgRel(pkg))
	ov := map[string]string{}
	hdir := filepath.Join(cfg.VerifDir, "harness", pkg)
	ents, err := os.ReadDir(hdir)
	if err != nil {
		return nil, err
	}
	for _, e := range ents {
		if strings.HasSuffix(e.Name(), ".go") && !strings.HasSuffix(e.Name(), "_test.go") {
			ov[filepath.Join(dir, "zz_"+e.Name())] = filepath.Join(hdir, e.Name())
		}
	}
	tmpl, err := os.ReadFile(filepath.Join(cfg.VerifDir, "harness", "vn.go.tmpl"))
	if err != nil {
		return nil, err
	}
	pname := "argmapper"
	if pkg == "graph" {
		pname = "graph"
	}
	vn := strings.Replace(string(tmpl), "package PKG", "package "+pname, 1)
	vnPath := filepath.Join(scratch, "zz_vn_"+pname+".go")
	if err := os.WriteFile(vnPath, []byte(vn), 0o644); err != nil {
		return nil, err
	}
	ov[filepath.Join(dir, "zz_vn.go")] = vnPath
	return ov, nil
}

func goEnv() []string {
	env := os.Environ()
	env = append(env, "GOFLAGS=-mod=mod", "GOPROXY=off", "GOSUMDB=off", "GOTOOLCHAIN=local")
	return env
}

// Load builds SSA for the package under test with the harness overlaid.
func Load(cfg *Config, pkg string, scratch string) (*Loaded, error) {
	t0 := time.Now()
	ov, err := harnessOverlay(cfg, pkg, scratch)
	if err != nil {
		return nil, err
	}
	overlay := map[string][]byte{}
	var names []string
	for virt, real := range ov {
		b, err := os.ReadFile(real)
		if err != nil {
			return nil, err
		}
		overlay[virt] = b
		names = append(names, filepath.Base(real))
	}
	sort.Strings(names)
	pcfg := &packages.Config{
		Mode:       packages.LoadAllSyntax,
		Dir:        cfg.Repo,
		BuildFlags: []string{"-tags=verif"},
		Overlay:    overlay,
		Env:        goEnv(),
	}
	pat := "./" + pkgRel(pkg)
	pkgs, err := packages.Load(pcfg, pat)
	if err != nil {
		return nil, err
	}
	var errs []string
	packages.Visit(pkgs, nil, func(p *packages.Package) {
		for _, e := range p.Errors {
			errs = append(errs, e.Error())
		}
	})
	if len(errs) > 0 {
		return nil, fmt.Errorf("package load errors:\n%s", strings.Join(errs, "\n"))
	}
	prog, spkgs := ssautil.AllPackages(pkgs, ssa.InstantiateGenerics)
	prog.Build()
	var mainPkg *ssa.Package
	for _, sp := range spkgs {
		if sp != nil && sp.Pkg.Path() == pkgs[0].PkgPath {
			mainPkg = sp
		}
	}
	if mainPkg == nil {
		return nil, fmt.Errorf("package %s not found after load", pat)
	}
	return &Loaded{Prog: prog, Pkg: mainPkg, PkgDir: filepath.Join(cfg.Repo, pkgRel(pkg)), PkgPath: pkgs[0].PkgPath,
		Overlay: ov, LoadTime: time.Since(t0), Harness: names}, nil
}

// ---------------------------------------------------------------------------

type task struct {
	shard  int
	prefix []int32
}

// ShardStats aggregates what was explored for one shard.
type ShardStats struct {
	Shard       Shard
	Paths       int
	Infeasible  int
	Aborted     map[string]int
	Panics      int
	Divergences int
	Asserts     int
	Discharged  int
	Decisions   int
	Solved      int
	Steps       int64
	Covers      map[string]int
	Violations  []Violation
	Samples     []string
	Truncated   bool
	Schedules   map[string]int
	CVPaths     []cvPath
}

type cvPath struct {
	Shard  int
	Model  map[string]string
	Digest []string
	Note   string
}

// RunResult is the outcome of exploring a set of shards.
type RunResult struct {
	Shards    []*ShardStats
	Solver    SolverStats
	Funcs     map[string][2]int // function → (blocks covered, blocks)
	Externals map[string]int
	Cuts      map[string]int
	Wall      time.Duration
	Steps     int64
}

type runState struct {
	mu       sync.Mutex
	cond     *sync.Cond
	frontier []task
	inflight int
	stats    []*ShardStats
	stop     bool
}

func (ld *Loaded) entry(name string) *ssa.Function { return ld.Pkg.Func(name) }

// RunShards explores every path of every shard.
func RunShards(cfg *Config, ld *Loaded, shards []Shard, cvSample int) (*RunResult, error) {
	t0 := time.Now()
	st := &runState{}
	st.cond = sync.NewCond(&st.mu)
	for i, sh := range shards {
		if ld.entry(sh.Entry) == nil {
			return nil, fmt.Errorf("harness entry %s not found in package %s", sh.Entry, ld.PkgPath)
		}
		st.stats = append(st.stats, &ShardStats{Shard: sh, Aborted: map[string]int{}, Covers: map[string]int{}, Schedules: map[string]int{}})
		st.frontier = append(st.frontier, task{shard: i})
	}
	// reverse so that shard 0 is popped first
	for i, j := 0, len(st.frontier)-1; i < j; i, j = i+1, j-1 {
		st.frontier[i], st.frontier[j] = st.frontier[j], st.frontier[i]
	}
	initFn := ld.Pkg.Func("init")
	res := &RunResult{Funcs: map[string][2]int{}, Externals: map[string]int{}, Cuts: map[string]int{}}
	var wg sync.WaitGroup
	var resMu sync.Mutex
	var firstErr error
	nw := cfg.Workers
	if nw <= 0 {
		nw = 16
	}
	for w := 0; w < nw; w++ {
		wg.Add(1)
		go func(w int) {
			defer wg.Done()
			solver, err := NewSolver(cfg.Solver, cfg.TimeoutMs)
			if err != nil {
				resMu.Lock()
				firstErr = err
				resMu.Unlock()
				return
			}
			defer solver.Close()
			ex := NewExplorer(solver, cfg.Seed)
			it := NewInterp(ld.Prog, ex)
			rng := rand.New(rand.NewSource(cfg.Seed*7919 + int64(w)))
			for {
				st.mu.Lock()
				for len(st.frontier) == 0 && st.inflight > 0 && !st.stop {
					st.cond.Wait()
				}
				if st.stop || (len(st.frontier) == 0 && st.inflight == 0) {
					st.mu.Unlock()
					st.cond.Broadcast()
					break
				}
				tk := st.frontier[len(st.frontier)-1]
				st.frontier = st.frontier[:len(st.frontier)-1]
				st.inflight++
				ss := st.stats[tk.shard]
				over := ss.Shard.MaxPaths > 0 && ss.Paths >= ss.Shard.MaxPaths
				if over {
					ss.Truncated = true
					st.inflight--
					st.mu.Unlock()
					st.cond.Broadcast()
					continue
				}
				ss.Paths++
				st.mu.Unlock()

				sh := shards[tk.shard]
				ex.wantModel = cvSample > 0
				pr := runPath(it, ex, ld, initFn, sh, tk.prefix)

				st.mu.Lock()
				for _, sib := range pr.Siblings {
					st.frontier = append(st.frontier, task{shard: tk.shard, prefix: sib})
				}
				st.inflight--
				mergePath(ss, pr, rng, cvSample, tk.shard)
				st.mu.Unlock()
				st.cond.Broadcast()
			}
			resMu.Lock()
			res.Solver.Queries += solver.Stats.Queries
			res.Solver.Sat += solver.Stats.Sat
			res.Solver.Unsat += solver.Stats.Unsat
			res.Solver.Unknown += solver.Stats.Unknown
			res.Solver.Retries += solver.Stats.Retries
			res.Solver.Rescued += solver.Stats.Rescued
			res.Solver.Diffed += solver.Stats.Diffed
			res.Solver.Disagree += solver.Stats.Disagree
			res.Solver.Dur += solver.Stats.Dur
			if solver.Stats.MaxQuery > res.Solver.MaxQuery {
				res.Solver.MaxQuery = solver.Stats.MaxQuery
			}
			res.Steps += it.steps
			for fn, blocks := range it.fnSeen {
				name := fn.String()
				cur := res.Funcs[name]
				if len(blocks) > cur[0] {
					cur[0] = len(blocks)
				}
				cur[1] = len(fn.Blocks)
				res.Funcs[name] = cur
			}
			for k, v := range it.extSeen {
				res.Externals[k] += v
			}
			for k, v := range it.cutHits {
				res.Cuts[k] += v
			}
			resMu.Unlock()
		}(w)
	}
	wg.Wait()
	if firstErr != nil {
		return nil, firstErr
	}
	res.Shards = st.stats
	res.Wall = time.Since(t0)
	return res, nil
}

func mergePath(ss *ShardStats, pr *PathResult, rng *rand.Rand, cvSample int, shard int) {
	ss.Decisions += pr.Decisions
	ss.Solved += pr.Solved
	ss.Steps += pr.Steps
	switch {
	case pr.Outcome == "infeasible":
		ss.Infeasible++
		return
	case strings.HasPrefix(pr.Outcome, "abort:"):
		ss.Aborted[strings.TrimPrefix(pr.Outcome, "abort:")]++
		return
	case pr.Outcome == "panic":
		ss.Panics++
	case pr.Outcome == "divergence":
		ss.Divergences++
	}
	ss.Asserts += pr.Asserts
	ss.Discharged += pr.Discharged
	for _, c := range pr.Covers {
		ss.Covers[c]++
	}
	ss.Violations = append(ss.Violations, pr.Violations...)
	if pr.Note != "" {
		if len(ss.Samples) < 6 {
			ss.Samples = append(ss.Samples, pr.Note)
		} else if rng.Intn(ss.Paths+1) < 6 {
			ss.Samples[rng.Intn(6)] = pr.Note
		}
	}
	if cvSample > 0 && pr.Model != nil && pr.Outcome == "ok" && len(pr.Violations) == 0 {
		cp := cvPath{Shard: shard, Model: pr.Model, Digest: pr.Digest, Note: pr.Note}
		if len(ss.CVPaths) < cvSample {
			ss.CVPaths = append(ss.CVPaths, cp)
		} else if j := rng.Intn(ss.Paths + 1); j < cvSample {
			ss.CVPaths[j] = cp
		}
	}
}

// runPath executes one path (re-execution from scratch along the prefix).
func runPath(it *Interp, ex *Explorer, ld *Loaded, initFn *ssa.Function, sh Shard, prefix []int32) (pr *PathResult) {
	ex.startPath(prefix)
	it.resetPath()
	pr = ex.res
	startSteps := it.steps
	defer func() {
		pr.Steps = it.steps - startSteps
		if r := recover(); r != nil {
			switch r := r.(type) {
			case abortPath:
				if r.why == infeasible {
					pr.Outcome = "infeasible"
				} else {
					pr.Outcome = "abort:" + r.why
				}
			case targetPanic:
				pr.Outcome = "panic"
				func() {
					defer func() {
						if r2 := recover(); r2 != nil {
							pr.Outcome = "abort:failure while reporting a panic"
						}
					}()
					if ex.s.CheckPath() != "sat" {
						pr.Outcome = "infeasible"
						return
					}
					msg := fmt.Sprint(it.rm.toHost(r.v, 0))
					ex.violate("panic", "uncaught-panic: "+firstLine(msg), "", nil)
				}()
			case divergence:
				pr.Outcome = "divergence"
				func() {
					defer func() {
						if r2 := recover(); r2 != nil {
							pr.Outcome = "abort:failure while reporting a divergence"
						}
					}()
					if ex.s.CheckPath() != "sat" {
						pr.Outcome = "infeasible"
						return
					}
					if it.onDivSet && it.onDivLabel == "" {
						return // the harness declared divergence not to be this property's subject
					}
					if it.onDivSet {
						ex.violate("divergence", it.onDivLabel, it.onDivFinding, nil)
						return
					}
					ex.violate("divergence", "divergence: "+r.why, "", nil)
				}()
			default:
				panic(r)
			}
		}
	}()
	if initFn != nil {
		it.callFn(initFn, nil, nil)
	}
	args := make([]Value, len(sh.Args))
	for i, a := range sh.Args {
		args[i] = a
	}
	it.callFn(ld.entry(sh.Entry), args, nil)
	// lazily asserted assumptions may have made the path infeasible
	r := ex.s.CheckPath()
	if r == "unsat" {
		pr.Outcome = "infeasible"
		return pr
	}
	if r != "sat" {
		pr.Outcome = "abort:solver: " + r
		return pr
	}
	pr.Outcome = "ok"
	if ex.wantModel {
		pr.Model = ex.pathModel()
	}
	for k := range ex.usedSched {
		_ = k
	}
	return pr
}

func firstLine(s string) string {
	if i := strings.Index(s, "\n"); i >= 0 {
		s = s[:i]
	}
	if len(s) > 160 {
		s = s[:160]
	}
	return s
}

// entrySignatureOK checks a harness entry takes only int parameters.
func entrySignatureOK(fn *ssa.Function) bool {
	for _, p := range fn.Params {
		b, ok := p.Type().Underlying().(*types.Basic)
		if !ok || b.Kind() != types.Int {
			return false
		}
	}
	return true
}
