package engine

import (
	"fmt"
	"strings"
)

// Term is an SMT term of sort Int or Bool.
//
// Machine integers are encoded as mathematical Ints that are kept inside the
// range of their Go type; wrap-around is made explicit with ite (see wrapTerm).
type Term struct {
	op   string // "var","int","bool","lit","uf", or an SMT operator
	name string // var / uf name
	ival int64
	bval bool
	args []*Term
	isB  bool
	str  string

	// interval of an Int term (valid when iv): lo <= value <= hi. For variables it
	// is tightened in place by vnAssume; compound terms derive theirs when built.
	iv     bool
	lo, hi int64
}

func (t *Term) String() string {
	if t.str != "" {
		return t.str
	}
	switch t.op {
	case "var":
		t.str = t.name
	case "lit":
		t.str = t.name
	case "int":
		if t.ival < 0 {
			if t.ival == -1<<63 {
				t.str = "(- 9223372036854775808)"
			} else {
				t.str = fmt.Sprintf("(- %d)", -t.ival)
			}
		} else {
			t.str = fmt.Sprintf("%d", t.ival)
		}
	case "bool":
		t.str = fmt.Sprint(t.bval)
	case "uf":
		if len(t.args) == 0 {
			t.str = t.name
			break
		}
		var sb strings.Builder
		sb.WriteString("(" + t.name)
		for _, a := range t.args {
			sb.WriteString(" " + a.String())
		}
		sb.WriteString(")")
		t.str = sb.String()
	default:
		var sb strings.Builder
		sb.WriteString("(" + t.op)
		for _, a := range t.args {
			sb.WriteString(" " + a.String())
		}
		sb.WriteString(")")
		t.str = sb.String()
	}
	return t.str
}

func tInt(v int64) *Term   { return &Term{op: "int", ival: v, iv: true, lo: v, hi: v} }
func tBool(b bool) *Term   { return &Term{op: "bool", bval: b, isB: true} }
func tVarI(n string) *Term { return &Term{op: "var", name: n} }

func addOv(a, b int64) (int64, bool) {
	c := a + b
	if (c > a) == (b > 0) {
		return c, true
	}
	return 0, false
}

func subOv(a, b int64) (int64, bool) {
	c := a - b
	if (c < a) == (b > 0) {
		return c, true
	}
	return 0, false
}

// tAdd / tSub build a+b / a-b over the mathematical integers with intervals.
func tAdd(a, b *Term) *Term {
	t := mk("+", false, a, b)
	if a.iv && b.iv {
		lo, ok1 := addOv(a.lo, b.lo)
		hi, ok2 := addOv(a.hi, b.hi)
		if ok1 && ok2 {
			t.iv, t.lo, t.hi = true, lo, hi
		}
	}
	return t
}

func tSub(a, b *Term) *Term {
	t := mk("-", false, a, b)
	if a.iv && b.iv {
		lo, ok1 := subOv(a.lo, b.hi)
		hi, ok2 := subOv(a.hi, b.lo)
		if ok1 && ok2 {
			t.iv, t.lo, t.hi = true, lo, hi
		}
	}
	return t
}

func (r intRange) bounds() (int64, int64, bool) {
	if r.signed {
		if r.bits == 64 {
			return -1 << 63, 1<<63 - 1, true
		}
		return -(int64(1) << (r.bits - 1)), int64(1)<<(r.bits-1) - 1, true
	}
	if r.bits == 64 {
		return 0, 0, false
	}
	return 0, int64(1)<<r.bits - 1, true
}

func (t *Term) within(r intRange) bool {
	lo, hi, ok := r.bounds()
	return ok && t.iv && t.lo >= lo && t.hi <= hi
}

func (t *Term) setRange(r intRange) *Term {
	if lo, hi, ok := r.bounds(); ok {
		t.iv, t.lo, t.hi = true, lo, hi
	}
	return t
}
func tVarB(n string) *Term { return &Term{op: "var", name: n, isB: true} }
func tLit(s string) *Term  { return &Term{op: "lit", name: s} }

func mk(op string, isB bool, args ...*Term) *Term { return &Term{op: op, isB: isB, args: args} }

func tUF(name string, args ...*Term) *Term { return &Term{op: "uf", name: name, args: args} }

func tNot(a *Term) *Term {
	if a.op == "bool" {
		return tBool(!a.bval)
	}
	if a.op == "not" {
		return a.args[0]
	}
	return mk("not", true, a)
}

func tAnd(a, b *Term) *Term {
	if a.op == "bool" {
		if a.bval {
			return b
		}
		return a
	}
	if b.op == "bool" {
		if b.bval {
			return a
		}
		return b
	}
	return mk("and", true, a, b)
}

func tOr(a, b *Term) *Term {
	if a.op == "bool" {
		if a.bval {
			return a
		}
		return b
	}
	if b.op == "bool" {
		if b.bval {
			return b
		}
		return a
	}
	return mk("or", true, a, b)
}

func tIte(c, a, b *Term) *Term {
	if c.op == "bool" {
		if c.bval {
			return a
		}
		return b
	}
	if a == b {
		return a
	}
	if a.op == "int" && b.op == "int" && a.ival == b.ival {
		return a
	}
	if a.op == "bool" && b.op == "bool" {
		if a.bval == b.bval {
			return a
		}
		if a.bval {
			return c
		}
		return tNot(c)
	}
	t := mk("ite", a.isB, c, a, b)
	if !a.isB && a.iv && b.iv {
		t.iv = true
		t.lo, t.hi = a.lo, a.hi
		if b.lo < t.lo {
			t.lo = b.lo
		}
		if b.hi > t.hi {
			t.hi = b.hi
		}
	}
	return t
}

func tEq(a, b *Term) *Term {
	if a == b {
		return tBool(true)
	}
	if a.op == "int" && b.op == "int" {
		return tBool(a.ival == b.ival)
	}
	if a.op == "bool" && b.op == "bool" {
		return tBool(a.bval == b.bval)
	}
	if a.isB && b.op == "bool" {
		if b.bval {
			return a
		}
		return tNot(a)
	}
	if b.isB && a.op == "bool" {
		if a.bval {
			return b
		}
		return tNot(b)
	}
	if !a.isB && a.iv && b.iv && (a.hi < b.lo || b.hi < a.lo) {
		return tBool(false)
	}
	return mk("=", true, a, b)
}

// cmp builds an integer comparison, folding constants.
func tCmp(op string, a, b *Term) *Term {
	if a.op == "int" && b.op == "int" {
		switch op {
		case "<":
			return tBool(a.ival < b.ival)
		case "<=":
			return tBool(a.ival <= b.ival)
		case ">":
			return tBool(a.ival > b.ival)
		case ">=":
			return tBool(a.ival >= b.ival)
		}
	}
	if a.iv && b.iv {
		switch op {
		case "<":
			if a.hi < b.lo {
				return tBool(true)
			}
			if a.lo >= b.hi {
				return tBool(false)
			}
		case "<=":
			if a.hi <= b.lo {
				return tBool(true)
			}
			if a.lo > b.hi {
				return tBool(false)
			}
		case ">":
			if a.lo > b.hi {
				return tBool(true)
			}
			if a.hi <= b.lo {
				return tBool(false)
			}
		case ">=":
			if a.lo >= b.hi {
				return tBool(true)
			}
			if a.hi < b.lo {
				return tBool(false)
			}
		}
	}
	return mk(op, true, a, b)
}

// intRange describes the value range of a Go integer type.
type intRange struct {
	bits   int
	signed bool
}

func (r intRange) minLit() *Term {
	if !r.signed {
		return tInt(0)
	}
	if r.bits == 64 {
		return tInt(-1 << 63)
	}
	return tInt(-(int64(1) << (r.bits - 1)))
}

func (r intRange) maxLit() *Term {
	if r.signed {
		if r.bits == 64 {
			return tInt(1<<63 - 1)
		}
		return tInt(int64(1)<<(r.bits-1) - 1)
	}
	if r.bits == 64 {
		return tLit("18446744073709551615")
	}
	return tInt(int64(1)<<r.bits - 1)
}

func (r intRange) modLit() *Term {
	if r.bits == 64 {
		return tLit("18446744073709551616")
	}
	return tInt(int64(1) << r.bits)
}

// wrapOnce normalises the result of ONE addition/subtraction/negation of
// in-range operands back into the range (a single correction suffices).
func wrapOnce(t *Term, r intRange) *Term {
	if t.within(r) {
		return t
	}
	return wrapOnceRaw(t, r).setRange(r)
}

func wrapOnceRaw(t *Term, r intRange) *Term {
	return tIte(mk(">", true, t, r.maxLit()), mk("-", false, t, r.modLit()),
		tIte(mk("<", true, t, r.minLit()), mk("+", false, t, r.modLit()), t))
}

// wrapConv normalises an arbitrary in-64-bit-range Int term into the range r
// (used by conversions): ((t - min) mod 2^bits) + min.
func wrapConv(t *Term, r intRange) *Term {
	if t.within(r) {
		return t
	}
	min := r.minLit()
	return mk("+", false, mk("mod", false, mk("-", false, t, min), r.modLit()), min).setRange(r)
}

func inRange(t *Term, r intRange) *Term {
	return mk("and", true, mk("<=", true, r.minLit(), t), mk("<=", true, t, r.maxLit()))
}

// collectDecls walks t and reports variables / uninterpreted functions.
func collectDecls(t *Term, f func(*Term)) {
	switch t.op {
	case "var", "uf":
		f(t)
	}
	for _, a := range t.args {
		collectDecls(a, f)
	}
}
