package main

import (
	"flag"
	"fmt"
	"os"
	"strconv"
	"strings"

	engine "gose"
)

func main() {
	if len(os.Args) < 2 {
		fmt.Println("usage: gose run -prop C18 [-tier quick|thorough] | gose replay <file>")
		os.Exit(2)
	}
	switch os.Args[1] {
	case "run":
		fs := flag.NewFlagSet("run", flag.ExitOnError)
		prop := fs.String("prop", "", "property id(s), comma separated")
		tier := fs.String("tier", "quick", "quick|thorough")
		repo := fs.String("repo", "", "repository (default $VERIF_REPO or /repo)")
		verif := fs.String("verif", "", "verif dir (default $VERIF_DIR or /verif)")
		solver := fs.String("solver", "", "z3|z3-new|cvc5 (default $GOSE_SOLVER or z3)")
		workers := fs.Int("workers", 16, "")
		verbose := fs.Bool("v", false, "")
		fs.Parse(os.Args[2:])
		cfg := &engine.Config{Repo: *repo, VerifDir: *verif, Solver: *solver, Workers: *workers, Tier: *tier, TimeoutMs: 60000, Verbose: *verbose}
		if cfg.Repo == "" {
			cfg.Repo = os.Getenv("VERIF_REPO")
		}
		if cfg.Repo == "" {
			cfg.Repo = "/repo"
		}
		if cfg.VerifDir == "" {
			cfg.VerifDir = os.Getenv("VERIF_DIR")
		}
		if cfg.VerifDir == "" {
			cfg.VerifDir = "/verif"
		}
		if cfg.Solver == "" {
			cfg.Solver = os.Getenv("GOSE_SOLVER")
		}
		if cfg.Solver == "" {
			cfg.Solver = "z3"
		}
		if t := os.Getenv("VERIF_TIER"); t != "" && *tier == "" {
			cfg.Tier = t
		}
		if s := os.Getenv("VERIF_SEED"); s != "" {
			if v, err := strconv.ParseInt(s, 10, 64); err == nil {
				cfg.Seed = v
			}
		}
		code := 0
		for _, id := range strings.Split(*prop, ",") {
			c := engine.CheckProperty(cfg, strings.TrimSpace(id))
			if c > code {
				code = c
			}
			if c == 1 {
				code = 1
			}
		}
		os.Exit(code)
	case "replay":
		os.Exit(engine.ReplayCommand(os.Args[2:]))
	default:
		fmt.Println("unknown command", os.Args[1])
		os.Exit(2)
	}
}
