package engine

import (
	"fmt"
	"go/types"
	"strings"

	"golang.org/x/tools/go/ssa"
)

// vnPar: two interpreted goroutines with explored interleavings.
//
// Each interpreted thread runs on its own host goroutine; exactly one of them
// runs at any time (a baton is passed over channels), so the interpreter, the
// explorer and the solver pipe are never used concurrently. A thread may hand
// over only at yield points:
//
//   - before acquiring and after releasing a sync.Mutex,
//   - before a load or store of a "hot" shared cell: a cell reachable from the
//     objects marked by vnEpoch whose struct field is assigned somewhere in the
//     repository's code (computed from the SSA of the current tree).
//
// Whether to hand over is a free decision of the explorer (forked both ways),
// bounded by maxSwitches context switches per vnPar. Sequential consistency is
// assumed (justified for race-free programs; unguarded shared writes are
// reported separately by the write tracking).
type parState struct {
	threads  [2]*parThread
	cur      int
	switches int
	max      int
	abort    bool
	mainWake chan struct{}
	owner    map[*Value]int // mutex → owning thread (absent: free)
}

type parThread struct {
	id       int
	resume   chan struct{}
	done     bool
	panicVal interface{}
	cur      *frame
	depth    int
	fn       Value
}

type parAbort struct{}

// hotFields: (struct type key, field index) pairs assigned anywhere in the repo.
func computeHotFields(prog *ssa.Program) map[string]bool {
	hot := map[string]bool{}
	for fn := range allFunctions(prog) {
		if fn.Pkg == nil && fn.Parent() == nil {
			continue
		}
		pk := fn.Pkg
		if pk == nil && fn.Parent() != nil {
			pk = fn.Parent().Pkg
		}
		if pk == nil || !strings.HasPrefix(pk.Pkg.Path(), repoPath) {
			continue
		}
		if f := prog.Fset.Position(fn.Pos()).Filename; strings.HasPrefix(shortFile(f), "zz_") {
			continue // harness code (overlaid files)
		}
		for _, b := range fn.Blocks {
			for _, ins := range b.Instrs {
				st, ok := ins.(*ssa.Store)
				if !ok {
					continue
				}
				if fa, ok := st.Addr.(*ssa.FieldAddr); ok {
					// a store into an object allocated by this very function is
					// initialisation of a fresh (or copied) object, not a mutation of shared state
					if _, local := fa.X.(*ssa.Alloc); local {
						continue
					}
					hot[fieldKey(fa)] = true
				}
			}
		}
	}
	return hot
}

func fieldKey(fa *ssa.FieldAddr) string {
	pt, _ := fa.X.Type().Underlying().(*types.Pointer)
	if pt == nil {
		return ""
	}
	return fmt.Sprintf("%s#%d", typeKey(pt.Elem()), fa.Field)
}

func allFunctions(prog *ssa.Program) map[*ssa.Function]bool {
	seen := map[*ssa.Function]bool{}
	var visit func(f *ssa.Function)
	visit = func(f *ssa.Function) {
		if f == nil || seen[f] {
			return
		}
		seen[f] = true
		for _, a := range f.AnonFuncs {
			visit(a)
		}
	}
	for _, pkg := range prog.AllPackages() {
		if !strings.HasPrefix(pkg.Pkg.Path(), repoPath) {
			continue
		}
		for _, m := range pkg.Members {
			switch m := m.(type) {
			case *ssa.Function:
				visit(m)
			case *ssa.Type:
				for _, t := range []types.Type{m.Type(), types.NewPointer(m.Type())} {
					ms := prog.MethodSets.MethodSet(t)
					for i := 0; i < ms.Len(); i++ {
						visit(prog.MethodValue(ms.At(i)))
					}
				}
			}
		}
	}
	return seen
}

// runPar implements the vnPar intrinsic.
func (it *Interp) runPar(f, g Value, maxSwitches int) {
	if it.par != nil {
		panic(abortPath{"nested vnPar"})
	}
	ps := &parState{max: maxSwitches, mainWake: make(chan struct{}), owner: map[*Value]int{}}
	it.par = ps
	it.hotPtrs = map[*Value]bool{}
	savedCur, savedDepth := it.cur, it.depth
	for i, fn := range []Value{f, g} {
		th := &parThread{id: i, resume: make(chan struct{}), fn: fn}
		ps.threads[i] = th
		go func(th *parThread) {
			<-th.resume
			func() {
				defer func() {
					if r := recover(); r != nil {
						if _, ok := r.(parAbort); !ok {
							th.panicVal = r
							ps.abort = true
						}
					}
				}()
				if ps.abort {
					return
				}
				it.cur, it.depth = nil, savedDepth
				it.callValue(th.fn, nil)
			}()
			th.done = true
			other := ps.threads[1-th.id]
			if other != nil && !other.done {
				ps.cur = other.id
				other.resume <- struct{}{}
				return
			}
			ps.mainWake <- struct{}{}
		}(th)
	}
	ps.cur = 0
	ps.threads[0].resume <- struct{}{}
	<-ps.mainWake
	it.par = nil
	it.hotPtrs = nil
	it.cur, it.depth = savedCur, savedDepth
	for _, th := range ps.threads {
		if th.panicVal != nil {
			panic(th.panicVal)
		}
	}
}

// parSwitch hands the baton to the other thread and waits to be resumed.
func (it *Interp) parSwitch() {
	ps := it.par
	me := ps.threads[ps.cur]
	other := ps.threads[1-ps.cur]
	me.cur, me.depth = it.cur, it.depth
	ps.cur = other.id
	other.resume <- struct{}{}
	<-me.resume
	if ps.abort {
		panic(parAbort{})
	}
	it.cur, it.depth = me.cur, me.depth
}

// parYield is a point at which the scheduler may (by a forked free choice)
// switch to the other thread.
func (it *Interp) parYield() {
	ps := it.par
	if ps == nil || ps.abort {
		return
	}
	other := ps.threads[1-ps.cur]
	if other == nil || other.done || ps.switches >= ps.max {
		return
	}
	if it.ex.choose(2) == 1 {
		ps.switches++
		it.ex.usedSched[fmt.Sprintf("interleaving: switch %d at %s", ps.switches, it.whereNow())] = true
		it.parSwitch()
	}
}

func (it *Interp) parLock(m *Value) {
	ps := it.par
	it.parYield()
	for {
		o, held := ps.owner[m]
		if !held {
			ps.owner[m] = ps.cur
			return
		}
		if o == ps.cur {
			panic(targetPanic{mkStringIface("fatal error: all goroutines are asleep - deadlock! (recursive Lock)")})
		}
		other := ps.threads[1-ps.cur]
		if other.done {
			panic(targetPanic{mkStringIface("fatal error: all goroutines are asleep - deadlock!")})
		}
		// blocked: the other thread must run (not a choice, not counted as a switch)
		it.parSwitch()
	}
}

func (it *Interp) parUnlock(m *Value) {
	ps := it.par
	if o, held := ps.owner[m]; !held || o != ps.cur {
		if !held {
			panic(targetPanic{mkStringIface("fatal error: sync: unlock of unlocked mutex")})
		}
	}
	delete(ps.owner, m)
	it.parYield()
}

func (it *Interp) whereNow() string {
	if it.cur != nil {
		return it.where(it.cur)
	}
	return "?"
}
