package engine

import (
	"bytes"
	"context"
	"encoding/json"
	"fmt"
	"go/types"
	"os"
	"os/exec"
	"path/filepath"
	"sort"
	"strings"
	"time"
)

// ReplayFile is a concrete counterexample (or a sampled path for
// cross-validation) that the natively compiled harness can re-run.
type ReplayFile struct {
	Property string            `json:"property"`
	Pkg      string            `json:"pkg"`
	Entry    string            `json:"entry"`
	Args     []int64           `json:"args"`
	Inputs   map[string]string `json:"inputs"`
	Label    string            `json:"label"`
	Kind     string            `json:"kind"` // assert | panic | divergence | cv
	Finding  string            `json:"finding,omitempty"`
	Note     string            `json:"note,omitempty"`
	Schedule []string          `json:"schedule,omitempty"`
	Repeat   int               `json:"repeat"`
	Digest   []string          `json:"digest,omitempty"`
}

type ReplayResult struct {
	Reproduced bool
	Mode       string
	Detail     string
	Digest     []string
	Outcome    string
}

func writeReplay(dir, prop string, n int, sp Shard, v Violation) (string, error) {
	if err := os.MkdirAll(dir, 0o755); err != nil {
		return "", err
	}
	rf := ReplayFile{Property: prop, Pkg: Props[prop].Pkg, Entry: sp.Entry, Args: sp.Args, Inputs: v.Model, Label: v.Label, Kind: v.Kind,
		Finding: v.Finding, Note: v.Note, Schedule: v.Schedule, Repeat: 1}
	if len(v.Schedule) > 0 {
		rf.Repeat = 20000
	}
	b, _ := json.MarshalIndent(rf, "", " ")
	p := filepath.Join(dir, fmt.Sprintf("%03d.json", n))
	return p, os.WriteFile(p, b, 0o644)
}

const replayTestTmpl = `//go:build verif

package PKG

import (
	"encoding/json"
	"fmt"
	"os"
	"path/filepath"
	"runtime/debug"
	"sort"
	"strings"
	"testing"
	"time"
)

type vnReplayFile struct {
	Entry  string            ` + "`json:\"entry\"`" + `
	Args   []int             ` + "`json:\"args\"`" + `
	Inputs map[string]string ` + "`json:\"inputs\"`" + `
	Label  string            ` + "`json:\"label\"`" + `
	Kind   string            ` + "`json:\"kind\"`" + `
	Repeat int               ` + "`json:\"repeat\"`" + `
}

var vnHarnesses = map[string]func(a []int){
HARNESSES
}

func vnRunOnce(rf *vnReplayFile) (st *vnReplayState, outcome string) {
	vnR = &vnReplayState{Inputs: rf.Inputs}
	st = vnR
	outcome = "ok"
	defer func() {
		if r := recover(); r != nil {
			if _, ok := r.(vnAssumeFailed); ok {
				outcome = "assume-failed"
				return
			}
			outcome = "panic: " + strings.SplitN(fmt.Sprint(r), "\n", 2)[0]
		}
	}()
	h := vnHarnesses[rf.Entry]
	if h == nil {
		return st, "no-such-harness"
	}
	h(rf.Args)
	return st, outcome
}

func TestVNReplay(t *testing.T) {
	debug.SetMaxStack(64 << 20)
	hQuietLogs()
	p := os.Getenv("VN_REPLAY")
	var files []string
	if fi, err := os.Stat(p); err == nil && fi.IsDir() {
		files, _ = filepath.Glob(filepath.Join(p, "*.json"))
		sort.Strings(files)
	} else {
		files = []string{p}
	}
	for _, f := range files {
		b, err := os.ReadFile(f)
		if err != nil {
			fmt.Printf("VN-RESULT file=%s error=%q\n", f, err.Error())
			continue
		}
		var rf vnReplayFile
		if err := json.Unmarshal(b, &rf); err != nil {
			fmt.Printf("VN-RESULT file=%s error=%q\n", f, err.Error())
			continue
		}
		repeat := rf.Repeat
		if repeat < 1 {
			repeat = 1
		}
		deadline := time.Now().Add(30 * time.Second)
		reproduced := false
		var st *vnReplayState
		outcome := ""
		runs := 0
		for i := 0; i < repeat && time.Now().Before(deadline); i++ {
			runs++
			st, outcome = vnRunOnce(&rf)
			switch rf.Kind {
			case "assert":
				for _, l := range st.Failures {
					if l == rf.Label {
						reproduced = true
					}
				}
			case "panic":
				reproduced = strings.HasPrefix(outcome, "panic")
			case "cv":
				reproduced = true
			}
			if reproduced {
				break
			}
		}
		js, _ := json.Marshal(map[string]interface{}{"file": f, "reproduced": reproduced, "outcome": outcome, "runs": runs,
			"failures": st.Failures, "findings": st.Findings, "digest": st.Digest})
		fmt.Printf("VN-RESULT %s\n", js)
	}
}
`

func harnessRegistry(ld *Loaded) string {
	var names []string
	for name, mem := range ld.Pkg.Members {
		if !strings.HasPrefix(name, "Harness") {
			continue
		}
		if _, ok := mem.Type().(*types.Signature); !ok {
			continue
		}
		names = append(names, name)
	}
	sort.Strings(names)
	var sb strings.Builder
	for _, name := range names {
		fn := ld.Pkg.Func(name)
		if fn == nil || !entrySignatureOK(fn) {
			continue
		}
		var args []string
		for i := range fn.Params {
			args = append(args, fmt.Sprintf("a[%d]", i))
		}
		fmt.Fprintf(&sb, "\t%q: func(a []int) { %s(%s) },\n", name, name, strings.Join(args, ", "))
	}
	return sb.String()
}

// nativeRun compiles the harness files natively into the package under test
// (go test -overlay; nothing is written into the repository) and runs
// TestVNReplay on the given replay file or directory.
func nativeRun(cfg *Config, ld *Loaded, spec *PropSpec, replayPath string, timeout time.Duration, race bool) (string, error) {
	scratch, err := os.MkdirTemp("", "gose-replay-")
	if err != nil {
		return "", err
	}
	defer os.RemoveAll(scratch)
	pname := "argmapper"
	if spec.Pkg == "graph" {
		pname = "graph"
	}
	test := strings.Replace(replayTestTmpl, "package PKG", "package "+pname, 1)
	test = strings.Replace(test, "HARNESSES", harnessRegistry(ld), 1)
	testPath := filepath.Join(scratch, "zz_vnreplay_test.go")
	if err := os.WriteFile(testPath, []byte(test), 0o644); err != nil {
		return "", err
	}
	repl := map[string]string{}
	for virt, real := range ld.Overlay {
		// the vn file lives in the run's scratch dir: copy it, the scratch may go away
		b, err := os.ReadFile(real)
		if err != nil {
			return "", err
		}
		cp := filepath.Join(scratch, filepath.Base(virt))
		if err := os.WriteFile(cp, b, 0o644); err != nil {
			return "", err
		}
		repl[virt] = cp
	}
	repl[filepath.Join(ld.PkgDir, "zz_vnreplay_test.go")] = testPath
	ovb, _ := json.Marshal(map[string]interface{}{"Replace": repl})
	ovPath := filepath.Join(scratch, "overlay.json")
	if err := os.WriteFile(ovPath, ovb, 0o644); err != nil {
		return "", err
	}
	ctx, cancel := context.WithTimeout(context.Background(), timeout)
	defer cancel()
	goArgs := []string{"test", "-tags", "verif", "-vet=off", "-count=1", "-v", "-run", "^TestVNReplay$",
		"-overlay", ovPath, "-timeout", fmt.Sprintf("%ds", int(timeout.Seconds())-5)}
	if race {
		// the two goroutines must actually overlap for the detector to see the pair of
		// accesses unordered (the library's logger takes a lock that often orders them)
		goArgs[4] = "-count=60"
		goArgs = append(goArgs, "-race", "-failfast")
	}
	goArgs = append(goArgs, "./"+pkgRel(spec.Pkg))
	cmd := exec.CommandContext(ctx, "go", goArgs...)
	cmd.Dir = cfg.Repo
	cmd.Env = append(goEnv(), "VN_REPLAY="+replayPath)
	var out bytes.Buffer
	cmd.Stdout = &out
	cmd.Stderr = &out
	err = cmd.Run()
	if os.Getenv("GOSE_DEBUG_REPLAY") != "" {
		fmt.Fprintln(os.Stderr, "native replay:", strings.Join(goArgs, " "), "\n", out.String())
	}
	return out.String(), err
}

type vnResultLine struct {
	File       string   `json:"file"`
	Reproduced bool     `json:"reproduced"`
	Outcome    string   `json:"outcome"`
	Runs       int      `json:"runs"`
	Failures   []string `json:"failures"`
	Findings   []string `json:"findings"`
	Digest     []string `json:"digest"`
}

func parseVNResults(out string) []vnResultLine {
	var rs []vnResultLine
	for _, l := range strings.Split(out, "\n") {
		if i := strings.Index(l, "VN-RESULT {"); i >= 0 {
			var r vnResultLine
			if json.Unmarshal([]byte(l[i+len("VN-RESULT "):]), &r) == nil {
				rs = append(rs, r)
			}
		}
	}
	return rs
}

// replayNative re-runs one counterexample against the real build.
func replayNative(cfg *Config, ld *Loaded, spec *PropSpec, path string) ReplayResult {
	b, err := os.ReadFile(path)
	if err != nil {
		return ReplayResult{Detail: err.Error()}
	}
	var rf ReplayFile
	json.Unmarshal(b, &rf)
	race := spec.RaceReplay && strings.Contains(rf.Label, "shared")
	out, runErr := nativeRun(cfg, ld, spec, path, 150*time.Second, race)
	if race {
		if strings.Contains(out, "DATA RACE") {
			return ReplayResult{Reproduced: true, Mode: "native-race-detector", Detail: "two goroutines running the operation race on the shared object"}
		}
		return ReplayResult{Detail: "no data race reported natively: " + lastLines(out, 3)}
	}
	mode := "native"
	if rf.Repeat > 1 {
		mode = "native-repeated"
	}
	if rf.Kind == "divergence" {
		if strings.Contains(out, "stack exceeds") || strings.Contains(out, "stack overflow") || strings.Contains(out, "test timed out") {
			return ReplayResult{Reproduced: true, Mode: mode, Detail: "native run overflowed the stack / did not terminate"}
		}
		return ReplayResult{Detail: "native run terminated: " + lastLines(out, 3)}
	}
	rs := parseVNResults(out)
	if len(rs) == 0 {
		if rf.Kind == "panic" && (strings.Contains(out, "stack exceeds") || strings.Contains(out, "fatal error")) {
			return ReplayResult{Reproduced: true, Mode: mode, Detail: "native run crashed"}
		}
		return ReplayResult{Detail: fmt.Sprintf("no result line (err=%v): %s", runErr, lastLines(out, 6))}
	}
	r := rs[0]
	if r.Reproduced {
		return ReplayResult{Reproduced: true, Mode: mode, Detail: fmt.Sprintf("after %d run(s)", r.Runs), Outcome: r.Outcome}
	}
	return ReplayResult{Detail: fmt.Sprintf("outcome=%s failures=%v after %d run(s)", r.Outcome, r.Failures, r.Runs), Outcome: r.Outcome}
}

func lastLines(s string, n int) string {
	ls := strings.Split(strings.TrimSpace(s), "\n")
	if len(ls) > n {
		ls = ls[len(ls)-n:]
	}
	return strings.Join(ls, " | ")
}

// crossValidate replays sampled completed paths natively and compares the
// digest the harness traced (vnTrace / vnTraceInt) with the interpreter's.
func crossValidate(cfg *Config, ld *Loaded, spec *PropSpec, res *RunResult, dir string, kf *KnownFindings) (int, []string) {
	os.MkdirAll(dir, 0o755)
	type exp struct {
		digest []string
		note   string
	}
	want := map[string]exp{}
	n := 0
	for _, ss := range res.Shards {
		for _, cp := range ss.CVPaths {
			if cp.Model == nil {
				continue
			}
			if _, bad := cp.Model["_model"]; bad {
				continue
			}
			rf := ReplayFile{Property: spec.ID, Pkg: spec.Pkg, Entry: ss.Shard.Entry, Args: ss.Shard.Args, Inputs: cp.Model, Kind: "cv", Note: cp.Note, Repeat: 1, Digest: cp.Digest}
			b, _ := json.MarshalIndent(rf, "", " ")
			p := filepath.Join(dir, fmt.Sprintf("cv%04d.json", n))
			os.WriteFile(p, b, 0o644)
			want[p] = exp{cp.Digest, cp.Note}
			n++
		}
	}
	if n == 0 {
		return 0, nil
	}
	out, err := nativeRun(cfg, ld, spec, dir, 280*time.Second, false)
	rs := parseVNResults(out)
	var bad []string
	if len(rs) != n {
		bad = append(bad, fmt.Sprintf("native run produced %d of %d results (err=%v): %s", len(rs), n, err, lastLines(out, 5)))
	}
	ok := 0
	for _, r := range rs {
		w, found := want[r.File]
		if !found {
			continue
		}
		if r.Outcome != "ok" {
			bad = append(bad, fmt.Sprintf("%s: native outcome %s (note %s)", filepath.Base(r.File), r.Outcome, w.note))
			continue
		}
		a := append([]string(nil), w.digest...)
		b := append([]string(nil), r.Digest...)
		sort.Strings(a)
		sort.Strings(b)
		if strings.Join(a, "\x00") != strings.Join(b, "\x00") {
			bad = append(bad, fmt.Sprintf("%s: digest differs: symbolic %v native %v (note %s)", filepath.Base(r.File), a, b, w.note))
			continue
		}
		var unknownFails []string
		for i, f := range r.Failures {
			fd := ""
			if i < len(r.Findings) {
				fd = r.Findings[i]
			}
			if kf.match(spec.ID, fd) == nil {
				unknownFails = append(unknownFails, f)
			}
		}
		if len(unknownFails) > 0 {
			bad = append(bad, fmt.Sprintf("%s: native run fails assertions %v that the symbolic run discharged (note %s)", filepath.Base(r.File), r.Failures, w.note))
			continue
		}
		ok++
	}
	return ok, bad
}

// ReplayCommand implements `gose replay <file>`: re-run a stored
// counterexample natively against the repository's current working tree.
func ReplayCommand(args []string) int {
	if len(args) < 1 {
		fmt.Println("usage: gose replay <replay.json>")
		return 2
	}
	if abs, err := filepath.Abs(args[0]); err == nil {
		args[0] = abs
	}
	b, err := os.ReadFile(args[0])
	if err != nil {
		fmt.Println(err)
		return 2
	}
	var rf ReplayFile
	if err := json.Unmarshal(b, &rf); err != nil {
		fmt.Println(err)
		return 2
	}
	spec := Props[rf.Property]
	if spec == nil {
		fmt.Println("unknown property", rf.Property)
		return 2
	}
	cfg := &Config{Repo: os.Getenv("VERIF_REPO"), VerifDir: os.Getenv("VERIF_DIR")}
	if cfg.Repo == "" {
		cfg.Repo = "/repo"
	}
	if cfg.VerifDir == "" {
		cfg.VerifDir = "/verif"
	}
	scratch, _ := os.MkdirTemp("", "gose-")
	defer os.RemoveAll(scratch)
	ld, err := Load(cfg, spec.Pkg, scratch)
	if err != nil {
		fmt.Println("load failed:", err)
		return 2
	}
	rr := replayNative(cfg, ld, spec, args[0])
	fmt.Printf("replay %s: reproduced=%v mode=%s %s\n", args[0], rr.Reproduced, rr.Mode, rr.Detail)
	if rr.Reproduced {
		fmt.Printf("VIOLATION property=%s replay=%s label=%q\n", rf.Property, args[0], rf.Label)
		return 1
	}
	return 0
}
