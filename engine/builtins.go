package engine

import (
	"fmt"

	"golang.org/x/tools/go/ssa"
)

func (it *Interp) builtin(b *ssa.Builtin, args []Value) Value {
	switch b.Name() {
	case "len":
		switch x := args[0].(type) {
		case []Value:
			return int64(len(x))
		case string:
			return int64(len(x))
		case *Map:
			if x == nil {
				return int64(0)
			}
			return int64(x.n)
		case Array:
			return int64(len(x))
		case *Value:
			if x != nil {
				if a, ok := (*x).(Array); ok {
					return int64(len(a))
				}
			}
		}
		panic(abortPath{fmt.Sprintf("len of %T", args[0])})
	case "cap":
		switch x := args[0].(type) {
		case []Value:
			return int64(cap(x))
		case Array:
			return int64(len(x))
		}
		panic(abortPath{fmt.Sprintf("cap of %T", args[0])})
	case "append":
		s, _ := args[0].([]Value)
		var t []Value
		switch a := args[1].(type) {
		case []Value:
			t = a
		case string:
			for i := 0; i < len(a); i++ {
				t = append(t, int64(a[i]))
			}
		case nil:
		default:
			panic(abortPath{fmt.Sprintf("append of %T", args[1])})
		}
		if len(t) == 0 {
			return s
		}
		if it.shared != nil && len(s)+len(t) <= cap(s) {
			full := s[:cap(s)]
			for i := len(s); i < len(s)+len(t); i++ {
				it.noteWrite(&full[i])
			}
		}
		for _, e := range t {
			s = append(s, copyVal(e))
		}
		return s
	case "copy":
		d := args[0].([]Value)
		var n int
		switch s := args[1].(type) {
		case []Value:
			for i := 0; i < len(d) && i < len(s); i++ {
				if it.shared != nil {
					it.noteWrite(&d[i])
				}
				d[i] = copyVal(s[i])
				n++
			}
		case string:
			for i := 0; i < len(d) && i < len(s); i++ {
				d[i] = int64(s[i])
				n++
			}
		}
		return int64(n)
	case "delete":
		m := args[0].(*Map)
		if m != nil {
			it.noteMapWrite(m)
		}
		k := args[1]
		if kt, ok := k.(*Term); ok {
			k = it.ex.concretize(kt)
		}
		m.del(k)
		return nil
	case "recover":
		// recover is called from a deferred function: the panicking frame is its caller
		if c := it.cur; c != nil && c.caller != nil && c.caller.panicking != nil {
			p := c.caller.panicking
			c.caller.panicking = nil
			if i, ok := p.v.(Iface); ok {
				return i
			}
			return mkStringIface(fmt.Sprint(p.v))
		}
		return Iface{}
	case "ssa:wrapnilchk":
		if p, ok := args[0].(*Value); ok && p == nil {
			panic(runtimePanic("value method called using nil pointer"))
		}
		return args[0]
	case "print", "println":
		return nil
	case "min", "max":
		if len(args) == 2 {
			a, aok := args[0].(int64)
			c, cok := args[1].(int64)
			if aok && cok {
				if (b.Name() == "min") == (a < c) {
					return a
				}
				return c
			}
		}
		panic(abortPath{"builtin min/max on non-concrete ints"})
	}
	panic(abortPath{"builtin: unsupported " + b.Name()})
}
