package engine

import "fmt"

var famNames = []string{"F-type", "F-name", "F-sub", "F-full", "F-iface", "F-chain", "F-tsub", "F-nsub", "F-assign", "F-ptr", "F-asub", "F-unnamed"}
var formNames = map[int64]string{0: "positional where the labels allow it, else struct", 1: "struct", 2: "*struct", 3: "built (BuildFunc)", 9: "symbolic form per function"}

// world describes one resolver template shard.
func world(entry string, fam, nT, nV, conv, form, sv int64, mode ...int64) Shard {
	m := int64(0)
	if len(mode) > 0 {
		m = mode[0]
	}
	extra := ""
	if m&2 != 0 {
		extra += ", converters symbolically run-once"
	}
	if m&4 != 0 {
		extra += ", type-only entries of a list may share a type with different subtypes"
	}
	if m&8 != 0 {
		extra += ", symbolically after a complete earlier call on the same target"
	}
	if m&16 != 0 {
		extra += ", all options attached as construction defaults"
	}
	if m&32 != 0 {
		extra += ", option spelling of every value symbolic (NamedSubtype / Named / Typed / Typed after a nil / TypedSubtype, or all of them as ValueSet.Args())"
	}
	if m&64 != 0 {
		extra += ", target built with default values under its own parameters' keys (Call arguments must win)"
	}
	if m&512 != 0 {
		extra += ", the call goes through a function returned by Redefine(converters) that is given the values"
	}
	if m&128 != 0 {
		extra += ", kind of error value symbolic (pointer error / the library's *ErrArgumentUnsatisfied / struct-valued error that is the zero value of its type / one-element multierror)"
	}
	if fam >= 100 {
		skel := []string{"skeleton 0: multi-input converter entered through one input, typed inputs with symbolic subtypes", "skeleton 1: diamond of two multi-input converters", "skeleton 2: two-output converter feeding two parameters, symbolic names/subtypes",
			"skeleton 3: provider competing with direct values, symbolic names/subtypes", "skeleton 4: chain of three with a bidirectional pair", "skeleton 5: two named parameters converted from competing named inputs with subtypes", "skeleton 6: deep diamond (5 converters, named+subtyped intermediate, interface target)", "skeleton 7: two supplied converters of identical Go type and a hopeless named parameter", "skeleton 8: same-name conversion adding a subtype fed by another converter (negative-weight loop under the name discount)", "skeleton 9: named values of one name and type with symbolic subtypes around a multi-input converter and a provider"}
		return sh(entry, fmt.Sprintf("%s, forms=%s, order policy %d%s", skel[fam-100], formNames[form], sv, extra), 0, fam, nT, nV, conv, form, sv, m)
	}
	return sh(entry, fmt.Sprintf("%s: %d target params, %d supplied values, converters(in,out digits; 9=provider)=%d, forms=%s, order policy %d%s", famNames[fam], nT, nV, conv, formNames[form], sv, extra), 0, fam, nT, nV, conv, form, sv, m)
}

func registerResolver() {
	resolverFns := []string{
		"(*github.com/hashicorp/go-argmapper.Func).Call", "(*github.com/hashicorp/go-argmapper.Func).callGraph",
		"(*github.com/hashicorp/go-argmapper.Func).reachTarget", "(*github.com/hashicorp/go-argmapper.Func).callDirect",
		"(*github.com/hashicorp/go-argmapper.Func).graph", "(*github.com/hashicorp/go-argmapper.argBuilder).graph",
		"(*github.com/hashicorp/go-argmapper.Func).outputValues",
	}
	common := []string{"names never contain '/', type names are distinct (hash codes are formatted strings)", "user functions are pure and total: their results are uninterpreted functions of their inputs",
		"Graph.String (trace logging only) is cut", "hclog is an inert logger"}
	register(&PropSpec{
		ID: "C01", Pkg: "argmapper",
		Quick: []Shard{
			world("HarnessC01", 2, 1, 2, 0, 1, 0, 4), world("HarnessC01", 2, 1, 2, 11, 1, 0, 4),
			world("HarnessC01", 6, 1, 1, 0, 1, 0, 32), world("HarnessC01", 2, 1, 2, 0, 1, 0, 32),
			world("HarnessC01", 11, 2, 1, 0, 1, 0), world("HarnessC01", 11, 1, 1, 11, 1, 100),
			world("HarnessC01", 10, 1, 2, 11, 1, 0), world("HarnessC01", 10, 1, 1, 0, 1, 0),
			world("HarnessC01", 1, 1, 2, 0, 0, 0), world("HarnessC01", 2, 1, 2, 0, 1, 0), world("HarnessC01", 3, 1, 1, 0, 9, 0), world("HarnessC01", 0, 1, 1, 11, 9, 0), world("HarnessC01", 1, 1, 1, 11, 1, 0), world("HarnessC01", 2, 1, 1, 11, 3, 1), world("HarnessC01", 6, 1, 1, 12, 1, 0, 4), world("HarnessC01", 5, 1, 1, 2111, 0, 0), world("HarnessC01", 100, 0, 0, 0, 1, 0), world("HarnessC01", 101, 0, 0, 0, 9, 0, 2), world("HarnessC01", 102, 0, 0, 0, 1, 0), world("HarnessC01", 103, 0, 0, 0, 1, 0), world("HarnessC01", 104, 0, 0, 0, 0, 0), world("HarnessC01", 106, 0, 0, 0, 1, 0), world("HarnessC01", 1, 1, 1, 11, 3, 0, 8), world("HarnessC01", 3, 1, 1, 0, 9, 0, 24), world("HarnessC01", 0, 1, 1, 11, 9, 0, 16), world("HarnessC01", 9, 1, 1, 11, 1, 0), world("HarnessC01", 108, 0, 0, 0, 1, 0), world("HarnessC01", 109, 0, 0, 0, 1, 0),
		},
		Thorough: []Shard{
			world("HarnessC01", 2, 1, 2, 0, 1, 0, 4), world("HarnessC01", 2, 1, 2, 11, 1, 0, 4),
			world("HarnessC01", 6, 1, 1, 0, 1, 0, 32), world("HarnessC01", 2, 1, 2, 0, 1, 0, 32), world("HarnessC01", 6, 1, 2, 11, 1, 0, 32),
			world("HarnessC01", 11, 2, 1, 0, 1, 0), world("HarnessC01", 11, 1, 1, 11, 1, 100), world("HarnessC01", 11, 2, 0, 11, 1, 0), world("HarnessC01", 11, 2, 2, 11, 9, 0),
			world("HarnessC01", 10, 1, 2, 11, 1, 0), world("HarnessC01", 10, 2, 2, 11, 9, 0), world("HarnessC01", 10, 1, 1, 1111, 1, 0),
			world("HarnessC01", 1, 1, 2, 0, 0, 0), world("HarnessC01", 2, 1, 2, 0, 1, 0), world("HarnessC01", 3, 1, 1, 0, 9, 0), world("HarnessC01", 0, 1, 1, 11, 9, 0), world("HarnessC01", 1, 1, 1, 11, 1, 0), world("HarnessC01", 2, 1, 1, 11, 3, 1), world("HarnessC01", 6, 1, 1, 12, 1, 0, 4), world("HarnessC01", 5, 1, 1, 2111, 0, 0), world("HarnessC01", 100, 0, 0, 0, 1, 0), world("HarnessC01", 101, 0, 0, 0, 9, 0, 2), world("HarnessC01", 102, 0, 0, 0, 1, 0), world("HarnessC01", 103, 0, 0, 0, 1, 0), world("HarnessC01", 104, 0, 0, 0, 0, 0), world("HarnessC01", 106, 0, 0, 0, 1, 0), world("HarnessC01", 3, 1, 2, 0, 9, 0), world("HarnessC01", 3, 1, 1, 11, 3, 0), world("HarnessC01", 0, 1, 1, 1111, 1, 0), world("HarnessC01", 1, 2, 1, 11, 1, 0), world("HarnessC01", 0, 1, 2, 21, 1, 0), world("HarnessC01", 7, 1, 1, 11, 1, 0), world("HarnessC01", 6, 1, 2, 21, 1, 0, 4), world("HarnessC01", 5, 1, 2, 211111, 0, 0), world("HarnessC01", 5, 2, 1, 1111, 9, 0), world("HarnessC01", 100, 0, 0, 0, 9, 1), world("HarnessC01", 102, 0, 0, 0, 9, 0), world("HarnessC01", 103, 0, 0, 0, 9, 1), world("HarnessC01", 105, 0, 0, 0, 9, 0), world("HarnessC01", 1, 1, 1, 91, 1, 0), world("HarnessC01", 3, 1, 1, 91, 1, 0),
		},
		Covers: []string{"C01.call-returned", "C01.target-ran", "C01.converter-ran", "C01.parameter-checked"},
		Bounds: []string{"label pools per family: F-type {P0,P1,P2,I}; F-name names {'',a,b} x {P0,P1}; F-sub subtypes {'',s,t}; F-full names x types x {'',s}; labels are symbolic pool indices (solver-forked), payloads symbolic",
			"templates (target params, supplied values, converter arities, forms) as listed per shard"},
		Outside:  []string{"variadic functions", "more than 3 target parameters / 3 supplied values / 2 converters per template", "payload-dependent user code", "iteration orders other than insertion order and the seeded vectors"},
		Assume:   common,
		Anchored: resolverFns,
		CVQuick:  3, CVThor: 6,
	})
	register(&PropSpec{
		ID: "C02", Pkg: "argmapper",
		Quick: []Shard{
			world("HarnessC02", 6, 1, 1, 0, 1, 0, 32), world("HarnessC02", 2, 1, 2, 0, 1, 0, 32),
			world("HarnessC02", 10, 1, 2, 11, 1, 0), world("HarnessC02", 10, 1, 1, 0, 1, 0), sh("HarnessShapes", "statically declared target whose struct reaches the marker only through an embedded struct: loose field values do not satisfy it", 0, 1),
			world("HarnessC02", 1, 1, 2, 0, 0, 0), world("HarnessC02", 2, 1, 2, 0, 1, 0), world("HarnessC02", 3, 1, 1, 0, 9, 0), world("HarnessC02", 0, 1, 1, 11, 9, 0), world("HarnessC02", 1, 1, 1, 11, 1, 0), world("HarnessC02", 2, 1, 1, 11, 3, 1), world("HarnessC02", 5, 1, 1, 2121, 0, 0), world("HarnessC02", 100, 0, 0, 0, 1, 0), world("HarnessC02", 102, 0, 0, 0, 1, 0), world("HarnessC02", 103, 0, 0, 0, 1, 0), world("HarnessC02", 8, 1, 1, 0, 9, 0), world("HarnessC02", 8, 1, 1, 11, 1, 0), world("HarnessC02", 0, 1, 1, 21, 3, 0), world("HarnessC02", 109, 0, 0, 0, 1, 0),
			sh("HarnessC02Static", "target struct with an embedded exported (non-marker) field that cannot be derived", 0, 0), sh("HarnessC02Static", "converter whose struct input has an underivable embedded exported field", 0, 1),
		},
		Thorough: []Shard{sh("HarnessC02Static", "target struct with an embedded exported (non-marker) field that cannot be derived", 0, 0), sh("HarnessC02Static", "converter whose struct input has an underivable embedded exported field", 0, 1),
			world("HarnessC02", 6, 1, 1, 0, 1, 0, 32), world("HarnessC02", 2, 1, 2, 0, 1, 0, 32), world("HarnessC02", 6, 1, 2, 11, 1, 0, 32),
			world("HarnessC02", 10, 1, 2, 11, 1, 0), world("HarnessC02", 10, 2, 2, 11, 9, 0), world("HarnessC02", 10, 1, 1, 1111, 1, 0), sh("HarnessShapes", "statically declared target whose struct reaches the marker only through an embedded struct: loose field values do not satisfy it", 0, 1),
			world("HarnessC02", 1, 1, 2, 0, 0, 0), world("HarnessC02", 2, 1, 2, 0, 1, 0), world("HarnessC02", 3, 1, 1, 0, 9, 0), world("HarnessC02", 0, 1, 1, 11, 9, 0), world("HarnessC02", 1, 1, 1, 11, 1, 0), world("HarnessC02", 2, 1, 1, 11, 3, 1), world("HarnessC02", 5, 1, 1, 2121, 0, 0), world("HarnessC02", 100, 0, 0, 0, 1, 0), world("HarnessC02", 102, 0, 0, 0, 1, 0), world("HarnessC02", 103, 0, 0, 0, 1, 0), world("HarnessC02", 3, 1, 2, 0, 9, 0), world("HarnessC02", 3, 1, 1, 11, 3, 0), world("HarnessC02", 0, 1, 1, 1111, 1, 0), world("HarnessC02", 0, 1, 1, 2121, 1, 0), world("HarnessC02", 0, 1, 2, 21, 1, 0), world("HarnessC02", 5, 1, 1, 212111, 0, 0), world("HarnessC02", 6, 1, 1, 2111, 1, 0), world("HarnessC02", 1, 1, 1, 91, 1, 0),
		},
		Covers:   []string{"C02.shapes-checked", "C02.underivable-world"},
		Bounds:   []string{"as C01, restricted (by assumption) to worlds with a target parameter outside the least fixpoint of derivable values under the C01 matching table"},
		Outside:  []string{"as C01"},
		Assume:   common,
		Anchored: resolverFns,
		CVQuick:  3, CVThor: 6,
	})

	c06quick := []Shard{world("HarnessC06", 109, 0, 0, 0, 1, 0), sh("HarnessShapes", "parameter struct with an unexported embedded type (Call and Redefine)", 0, 3), sh("HarnessShapes", "target with a result of a concrete error type, redefined over a symbolically failing converter", 0, 4),
		world("HarnessC06", 1, 1, 2, 0, 0, 0), world("HarnessC06", 2, 2, 1, 0, 1, 0), world("HarnessC06", 3, 1, 1, 0, 9, 0), world("HarnessC06", 0, 1, 1, 11, 9, 0), world("HarnessC06", 1, 1, 1, 11, 1, 0), world("HarnessC06", 2, 1, 1, 11, 3, 1), world("HarnessC06", 5, 1, 1, 2121, 1, 0), world("HarnessC06", 5, 1, 1, 2111, 0, 0, 2), world("HarnessC06", 6, 1, 1, 12, 1, 0, 4), world("HarnessC06", 100, 0, 0, 0, 1, 0), world("HarnessC06", 101, 0, 0, 0, 9, 0, 2), world("HarnessC06", 102, 0, 0, 0, 1, 0), world("HarnessC06", 103, 0, 0, 0, 1, 0), world("HarnessC06", 104, 0, 0, 0, 0, 0), world("HarnessC06", 106, 0, 0, 0, 1, 0), world("HarnessC06", 1, 1, 1, 91, 1, 0), world("HarnessC06", 108, 0, 0, 0, 1, 0), world("HarnessC06", 4, 1, 1, 11, 1, 0),
		sh("HarnessC06Pos", "positional target func(T,T)", 0, 0), sh("HarnessC06Pos", "positional target func(T,T,U)", 0, 1),
		sh("HarnessC06Pos", "positional converter func(T,T) U", 0, 2), sh("HarnessC06Pos", "positional func(T,T) (T,T)", 0, 3),
		sh("HarnessC06Malformed", "nil option", 0, 0), sh("HarnessC06Malformed", "nil values", 0, 1), sh("HarnessC06Malformed", "Converter(42)", 0, 2),
		sh("HarnessC06Malformed", "Converter(nil)", 0, 3), sh("HarnessC06Malformed", "ConverterFunc(nil)", 0, 4), sh("HarnessC06Malformed", "generator returning an error (Call)", 0, 5),
		sh("HarnessC06Malformed", "NewFunc(nil)", 0, 6), sh("HarnessC06Malformed", "NewFunc(42)", 0, 7), sh("HarnessC06Malformed", "nil option through Redefine/Convert", 0, 8),
		sh("HarnessC06Malformed", "generator returning nil", 0, 9), sh("HarnessC06Malformed", "generator returning an error (Redefine)", 0, 10), sh("HarnessC06Malformed", "BuildFunc(nil,nil)", 0, 11),
		sh("HarnessC06Gen", "F-type: generator producing a converter, 1 supplied value", 0, 0, 1, 0), sh("HarnessC06Gen", "F-name: generator producing a converter, 2 supplied values", 0, 1, 2, 0),
	}
	register(&PropSpec{
		ID: "C06", Pkg: "argmapper",
		Quick:    c06quick,
		Thorough: append([]Shard{world("HarnessC06", 109, 0, 0, 0, 9, 0), world("HarnessC06", 0, 2, 1, 1111, 1, 0), world("HarnessC06", 4, 1, 1, 1111, 1, 0), world("HarnessC06", 5, 1, 1, 211111, 0, 0), world("HarnessC06", 101, 0, 0, 0, 9, 0, 2), world("HarnessC06", 104, 0, 0, 0, 9, 0, 2), world("HarnessC06", 108, 0, 0, 0, 9, 0)}, c06quick...),
		Covers:   []string{"C06.shapes-checked", "C06.call-returned", "C06.redefine-returned", "C06.convert-returned", "C06.positional-checked", "C06.malformed-checked", "C06.generator-checked"},
		Bounds:   []string{"template worlds as C01 (Call, then Redefine, then Convert on the same options)", "positional signatures repeating a type (4 shapes)", "12 malformed-option scenarios", "converter generators producing one converter", "call depth 400 / 4e6 SSA instructions per path = divergence"},
		Outside:  []string{"as C01", "variadic functions", "non-termination that needs more than 400 nested frames to distinguish from deep recursion"},
		Assume:   common,
		Anchored: append(resolverFns, "(*github.com/hashicorp/go-argmapper.Func).Redefine", "(*github.com/hashicorp/go-argmapper.Func).redefineInputs", "github.com/hashicorp/go-argmapper.Convert", "(*github.com/hashicorp/go-argmapper.structValue).CallIn"),
		CVQuick:  2, CVThor: 4,
	})

	register(&PropSpec{
		ID: "C03", Pkg: "argmapper", SchedDependent: true,
		Quick: []Shard{
			world("HarnessC03", 11, 2, 1, 0, 1, 0), world("HarnessC03", 11, 1, 1, 11, 1, 100),
			world("HarnessC03", 1, 1, 1, 0, 1, 100), world("HarnessC03", 3, 1, 1, 11, 1, 100), world("HarnessC03", 1, 2, 0, 11, 0, 0), world("HarnessC03", 2, 1, 1, 11, 1, 100), world("HarnessC03", 0, 1, 0, 11, 9, 0), world("HarnessC03", 3, 1, 0, 91, 1, 100), world("HarnessC03", 1, 1, 1, 91, 1, 101), world("HarnessC03", 103, 0, 0, 0, 1, 100), world("HarnessC03", 1, 1, 1, 91, 1, 100, 2), world("HarnessC03", 0, 1, 1, 91, 9, 100, 2),
			world("HarnessC03", 2, 1, 1, 11, 1, 0, 32), world("HarnessC03", 1, 2, 0, 11, 1, 0, 96), world("HarnessC03", 3, 1, 0, 11, 1, 0, 96), world("HarnessC03", 0, 2, 1, 0, 1, 0, 32), world("HarnessC03", 3, 2, 0, 0, 1, 0, 96),
		},
		Thorough: []Shard{
			world("HarnessC03", 11, 2, 1, 0, 1, 0), world("HarnessC03", 11, 1, 1, 11, 1, 100), world("HarnessC03", 11, 2, 0, 11, 1, 0), world("HarnessC03", 11, 2, 2, 11, 9, 0),
			world("HarnessC03", 3, 1, 1, 11, 1, 0, 32), world("HarnessC03", 3, 2, 0, 11, 1, 0, 64), world("HarnessC03", 2, 1, 1, 11, 1, 0, 32), world("HarnessC03", 1, 2, 0, 11, 1, 0, 96), world("HarnessC03", 3, 1, 0, 11, 1, 0, 96), world("HarnessC03", 0, 2, 1, 0, 1, 0, 32), world("HarnessC03", 3, 2, 0, 0, 1, 0, 96),
			world("HarnessC03", 1, 1, 1, 0, 1, 100), world("HarnessC03", 3, 1, 1, 11, 1, 100), world("HarnessC03", 1, 2, 0, 11, 0, 0), world("HarnessC03", 2, 1, 1, 11, 1, 100), world("HarnessC03", 0, 1, 0, 11, 9, 0), world("HarnessC03", 3, 1, 0, 91, 1, 100), world("HarnessC03", 1, 1, 1, 91, 1, 101), world("HarnessC03", 103, 0, 0, 0, 1, 100), world("HarnessC03", 1, 1, 2, 0, 1, 100), world("HarnessC03", 3, 1, 1, 11, 3, 101), world("HarnessC03", 1, 2, 0, 11, 0, 101), world("HarnessC03", 0, 1, 1, 11, 9, 0), world("HarnessC03", 3, 1, 0, 1111, 1, 0), world("HarnessC03", 3, 2, 1, 11, 1, 1), world("HarnessC03", 3, 1, 1, 91, 1, 101), world("HarnessC03", 2, 1, 1, 91, 1, 102), world("HarnessC03", 7, 1, 1, 1191, 1, 0), world("HarnessC03", 102, 0, 0, 0, 1, 100),
		},
		Covers:   []string{"C03.call-returned", "C03.with-distractor-converter"},
		Bounds:   []string{"targets of 1-2 parameters, each with an exactly matching supplied value (assumed), plus <=2 distractor values and <=2 distractor converters with symbolic labels", "iteration order: exhaustive product of independent flips at the six order-sensitive range sites of path selection (sv=100), or perm(3)/flip (sv=101)", "shards marked so: the option spelling of every value is symbolic (incl. Typed after a nil and ValueSet.Args()); the target carries conflicting construction defaults; unnamed non-pointer types ([]int, [1]int)"},
		Outside:  []string{"more distractors than listed", "iteration orders outside the named per-site policies", "interface-typed parameters (a supplied value always has a concrete type)"},
		Assume:   common,
		Anchored: resolverFns,
		CVQuick:  2, CVThor: 4,
	})
	register(&PropSpec{
		ID: "C04", Pkg: "argmapper",
		Quick: []Shard{
			world("HarnessC04", 0, 1, 1, 11, 1, 0, 512), world("HarnessC04", 5, 1, 1, 1111, 1, 0, 640), world("HarnessC04", 1, 1, 1, 11, 1, 0, 512),
			world("HarnessC04", 0, 1, 1, 11, 9, 0), world("HarnessC04", 1, 1, 1, 1111, 1, 0), world("HarnessC04", 0, 1, 1, 1121, 0, 0), world("HarnessC04", 0, 1, 1, 12, 9, 0), world("HarnessC04", 1, 1, 1, 12, 1, 0), world("HarnessC04", 101, 0, 0, 0, 1, 0), world("HarnessC04", 106, 0, 0, 0, 1, 0), world("HarnessC04", 104, 0, 0, 0, 0, 0), world("HarnessC04", 0, 1, 1, 1211, 1, 0, 2), world("HarnessC04", 0, 1, 1, 11, 1, 0, 128), world("HarnessC04", 5, 1, 1, 1111, 1, 0, 128),
		},
		Thorough: []Shard{
			world("HarnessC04", 0, 1, 1, 11, 1, 0, 512), world("HarnessC04", 5, 1, 1, 1111, 1, 0, 640), world("HarnessC04", 1, 1, 1, 11, 1, 0, 512), world("HarnessC04", 0, 1, 1, 11, 9, 0, 514), world("HarnessC04", 101, 0, 0, 0, 1, 0, 512),
			world("HarnessC04", 0, 1, 1, 11, 1, 0, 128), world("HarnessC04", 5, 1, 1, 1111, 1, 0, 128), world("HarnessC04", 0, 1, 1, 11, 9, 0, 130), world("HarnessC04", 101, 0, 0, 0, 1, 0, 128),
			world("HarnessC04", 0, 1, 1, 11, 9, 0), world("HarnessC04", 1, 1, 1, 1111, 1, 0), world("HarnessC04", 0, 1, 1, 1121, 0, 0), world("HarnessC04", 0, 1, 1, 12, 9, 0), world("HarnessC04", 1, 1, 1, 12, 1, 0), world("HarnessC04", 101, 0, 0, 0, 1, 0), world("HarnessC04", 106, 0, 0, 0, 1, 0), world("HarnessC04", 104, 0, 0, 0, 0, 0), world("HarnessC04", 0, 1, 1, 1211, 1, 0, 2), world("HarnessC04", 0, 2, 1, 1111, 1, 1), world("HarnessC04", 0, 1, 1, 111111, 1, 0), world("HarnessC04", 3, 1, 1, 11, 0, 0), world("HarnessC04", 3, 1, 0, 1111, 0, 0), world("HarnessC04", 0, 1, 2, 2111, 2, 0), world("HarnessC04", 3, 1, 1, 12, 1, 0), world("HarnessC04", 5, 1, 1, 211111, 0, 0), world("HarnessC04", 100, 0, 0, 0, 9, 0), world("HarnessC04", 102, 0, 0, 0, 9, 0, 2), world("HarnessC04", 101, 0, 0, 0, 9, 0, 2),
		},
		Covers:   []string{"C04.call-returned", "C04.converter-failed", "C04.target-failed", "C04.success"},
		Bounds:   []string{"chains of up to 2 (quick) / 3 (thorough) converters with symbolic labels, each declaring a final error and failing symbolically; the target fails symbolically too", "error identity is Go pointer identity of distinct error objects; in the shards marked so the kind of error value is symbolic (pointer error, *ErrArgumentUnsatisfied, struct-valued error equal to the zero value of its type, one-element *multierror.Error) and the call goes through a function returned by Redefine"},
		Outside:  []string{"more than 3 converters", "run-once converters (C11)"},
		Assume:   common,
		Anchored: append(resolverFns, "(*github.com/hashicorp/go-argmapper.Result).Err"),
		CVQuick:  2, CVThor: 4,
	})
	register(&PropSpec{
		ID: "C05", Pkg: "argmapper", SchedDependent: true,
		Quick: []Shard{
			world("HarnessC05", 2, 1, 2, 0, 1, 0, 4), world("HarnessC05", 2, 1, 2, 11, 1, 0, 4), sh("HarnessC05Gen", "generator reacting to the outputs of explicit converters (chain), 2 named values", 0, 2, 0, 1), sh("HarnessC05Gen", "converters from a name-sensitive generator, 2 named values, insertion order", 0, 2, 0, 0), sh("HarnessC05Gen", "generator, 3 named values, flip at Graph.Vertices", 0, 3, 103, 0), sh("HarnessShapes", "statically declared structs: marker last / in the middle, on the only derivation path (Call and Redefine)", 0, 0),
			world("HarnessC05", 0, 1, 1, 11, 1, 102), world("HarnessC05", 0, 1, 1, 1111, 1, 0), world("HarnessC05", 1, 1, 1, 1111, 1, 1), world("HarnessC05", 0, 1, 1, 1121, 1, 0), world("HarnessC05", 101, 0, 0, 0, 9, 0, 2), world("HarnessC05", 104, 0, 0, 0, 0, 100, 2), world("HarnessC05", 106, 0, 0, 0, 1, 0, 2), world("HarnessC05", 5, 1, 1, 2111, 0, 0, 2), world("HarnessC05", 0, 1, 1, 91, 9, 0, 2), world("HarnessC05", 0, 1, 1, 11, 9, 0, 16), world("HarnessC05", 108, 0, 0, 0, 1, 0), world("HarnessC05", 9, 1, 1, 11, 1, 0),
		},
		Thorough: []Shard{
			world("HarnessC05", 2, 1, 2, 0, 1, 0, 4), world("HarnessC05", 2, 1, 2, 11, 1, 0, 4), sh("HarnessC05Gen", "generator reacting to the outputs of explicit converters (chain), 2 named values", 0, 2, 0, 1), sh("HarnessC05Gen", "generator chain, 3 named values, flip at Graph.Vertices", 0, 3, 103, 1), sh("HarnessC05Gen", "converters from a name-sensitive generator, 2 named values, insertion order", 0, 2, 0, 0), sh("HarnessC05Gen", "generator, 3 named values, flip at Graph.Vertices", 0, 3, 103, 0), sh("HarnessC05Gen", "generator, 3 named values, flip product at the path-selection sites", 0, 3, 100, 0), sh("HarnessC05Gen", "generator, 2 named values, seeded orders 1", 0, 2, 1, 0), sh("HarnessC05Gen", "generator, 3 named values, seeded orders 2", 0, 3, 2, 0), sh("HarnessShapes", "statically declared structs: marker last / in the middle, on the only derivation path (Call and Redefine)", 0, 0),
			world("HarnessC05", 0, 1, 1, 11, 1, 102), world("HarnessC05", 0, 1, 1, 1111, 1, 0), world("HarnessC05", 1, 1, 1, 1111, 1, 1), world("HarnessC05", 0, 1, 1, 1121, 1, 0), world("HarnessC05", 101, 0, 0, 0, 9, 0, 2), world("HarnessC05", 104, 0, 0, 0, 0, 100, 2), world("HarnessC05", 106, 0, 0, 0, 1, 0, 2), world("HarnessC05", 5, 1, 1, 2111, 0, 0, 2), world("HarnessC05", 0, 1, 1, 91, 9, 0, 2), world("HarnessC05", 0, 1, 1, 1111, 1, 100), world("HarnessC05", 0, 1, 1, 111111, 1, 0), world("HarnessC05", 3, 1, 1, 11, 0, 0), world("HarnessC05", 3, 1, 0, 1111, 0, 0), world("HarnessC05", 0, 2, 1, 1111, 1, 2), world("HarnessC05", 4, 1, 1, 1111, 1, 0), world("HarnessC05", 5, 1, 2, 211111, 0, 0), world("HarnessC05", 5, 1, 1, 111111, 0, 0, 2), world("HarnessC05", 100, 0, 0, 0, 9, 0, 2), world("HarnessC05", 102, 0, 0, 0, 9, 0, 2), world("HarnessC05", 105, 0, 0, 0, 1, 100), world("HarnessC05", 105, 0, 0, 0, 9, 0),
		},
		Covers:   []string{"C05.gen-checked", "C05.shapes-checked", "C05.call-returned", "C05.derivable-world", "C05.converter-used", "C05.stability-checked"},
		Bounds:   []string{"converter sets of up to 2 (quick) / 3 (thorough) converters with symbolic labels, including 2-cycles and bidirectional pairs (single-input) and acyclic 2-input converters", "stability: the same call repeated in one path under two independent iteration-order choices (per-site flips, or seeded vectors)", "statically declared parameter/result structs with the marker last / in the middle (HarnessShapes)", "converters produced by a name-sensitive ConverterGen, also from values that only supplied converters produce (HarnessC05Gen)"},
		Outside:  []string{"more than 3 converters", "iteration orders outside the named policies"},
		Assume:   common,
		Anchored: resolverFns,
		CVQuick:  2, CVThor: 4,
	})
	c07 := func(kind, k, form, sv int64) Shard {
		return sh("HarnessC07", fmt.Sprintf("kind=%d (0: competing same-typed named inputs with symbolic subtypes, 1: named vs type-only converter; tens digit = number of named parameters), %d named inputs, converter form %s, order policy %d", kind, k, formNames[form], sv), 0, kind, k, form, sv)
	}
	register(&PropSpec{
		ID: "C07", Pkg: "argmapper", SchedDependent: true,
		Quick:    []Shard{c07(0, 2, 9, 100), c07(0, 3, 0, 100), c07(20, 2, 1, 100), c07(20, 3, 0, 0), c07(1, 1, 0, 100), c07(1, 2, 1, 101)},
		Thorough: []Shard{c07(0, 2, 9, 100), c07(0, 3, 9, 101), c07(0, 4, 0, 100), c07(20, 3, 9, 100), c07(30, 3, 1, 100), c07(1, 1, 9, 100), c07(1, 2, 9, 101), c07(1, 3, 0, 101), c07(0, 3, 0, 102)},
		Covers:   []string{"C07.conversion-checked"},
		Bounds:   []string{"k<=3 (quick) / 4 (thorough) competing named inputs of the converter's input type, the parameter's name symbolic among them, both type assignments, all four converter forms, both registration orders", "iteration order: exhaustive flip product at the six order-sensitive sites / perm(3) at Dijkstra's relaxation range and OutEdges"},
		Outside:  []string{"more than 4 competing inputs", "iteration orders outside the named policies"},
		Assume:   common,
		Anchored: resolverFns,
	})
	register(&PropSpec{
		ID: "C13", Pkg: "argmapper",
		Quick: []Shard{world("HarnessC13", 6, 1, 2, 0, 1, 0, 4), world("HarnessC13", 2, 1, 2, 0, 1, 0, 4), world("HarnessC13", 2, 2, 2, 0, 1, 0, 4), sh("HarnessShapes", "statically declared target with an embedded exported type next to the marker: the missing embedded parameter is named by the error", 0, 2),
			world("HarnessC13", 1, 1, 2, 0, 0, 0), world("HarnessC13", 3, 2, 1, 0, 1, 0), world("HarnessC13", 0, 1, 1, 11, 9, 0), world("HarnessC13", 2, 1, 1, 11, 3, 1), world("HarnessC13", 1, 2, 1, 11, 1, 0), world("HarnessC13", 5, 2, 1, 2111, 0, 0), world("HarnessC13", 107, 0, 0, 0, 9, 0), world("HarnessC13", 103, 0, 0, 0, 1, 0), world("HarnessC13", 6, 2, 1, 0, 1, 0, 4), world("HarnessC13", 6, 2, 0, 11, 1, 0, 4), world("HarnessC13", 1, 2, 1, 0, 3, 0, 8), world("HarnessC13", 0, 2, 1, 11, 9, 0, 16), world("HarnessC13", 0, 2, 1, 10, 9, 0), world("HarnessC13", 1, 2, 1, 1110, 1, 0),
		},
		Thorough: []Shard{world("HarnessC13", 6, 1, 2, 0, 1, 0, 4), world("HarnessC13", 2, 1, 2, 0, 1, 0, 4), world("HarnessC13", 2, 2, 2, 0, 1, 0, 4), sh("HarnessShapes", "statically declared target with an embedded exported type next to the marker: the missing embedded parameter is named by the error", 0, 2),
			world("HarnessC13", 1, 1, 2, 0, 0, 0), world("HarnessC13", 3, 2, 1, 0, 1, 0), world("HarnessC13", 0, 1, 1, 11, 9, 0), world("HarnessC13", 2, 1, 1, 11, 3, 1), world("HarnessC13", 1, 2, 1, 11, 1, 0), world("HarnessC13", 5, 2, 1, 2111, 0, 0), world("HarnessC13", 3, 2, 2, 11, 1, 0), world("HarnessC13", 0, 2, 1, 1111, 1, 0), world("HarnessC13", 6, 2, 1, 12, 1, 0, 4), world("HarnessC13", 7, 2, 1, 11, 1, 0), world("HarnessC13", 1, 2, 1, 91, 1, 0),
		},
		Covers:   []string{"C13.shapes-checked", "C13.hopeless-world", "C13.error-checked"},
		Bounds:   []string{"template worlds as C01 restricted (by assumption) to worlds with a target parameter that no supplied value and no converter output can match"},
		Outside:  []string{"as C01"},
		Assume:   common,
		Anchored: append(resolverFns, "(*github.com/hashicorp/go-argmapper.ErrArgumentUnsatisfied).Error"),
	})

	w10 := func(fam, nV, conv, form, sv int64) Shard {
		return sh("HarnessC10", fmt.Sprintf("%s: target type symbolic, %d supplied values, converters=%d, forms=%s, order policy %d", famNames[fam], nV, conv, formNames[form], sv), 0, fam, nV, conv, form, sv)
	}
	register(&PropSpec{
		ID: "C10", Pkg: "argmapper",
		Quick: []Shard{w10(0, 1, 0, 0, 0), w10(0, 1, 11, 9, 0), w10(4, 2, 11, 1, 0), w10(5, 1, 1111, 1, 0), w10(3, 2, 11, 0, 1),
			sh("HarnessC10Nil", "nilable target: *P0 supplied directly, nil-ness symbolic", 0, 0), sh("HarnessC10Nil", "nilable target: *P0 from a converter, nil-ness symbolic", 0, 1),
			sh("HarnessC10Nil", "nilable target: []P0 supplied directly, nil-ness symbolic", 0, 2), sh("HarnessC10Nil", "nilable target: []P0 from a converter, nil-ness symbolic", 0, 3),
			sh("HarnessC10Seq", "histories of 2 Convert calls over 4 target types (two distinct same-named local types, P0, interface)", 0, 2)},
		Thorough: []Shard{w10(0, 1, 0, 0, 0), w10(0, 1, 11, 9, 0), w10(4, 2, 11, 1, 0), w10(0, 1, 1111, 1, 0), w10(3, 2, 11, 0, 1), w10(0, 2, 1111, 1, 0), w10(0, 1, 2111, 1, 0), w10(4, 1, 1111, 1, 0), w10(4, 1, 11, 9, 0),
			sh("HarnessC10Nil", "nilable target: *P0 supplied directly, nil-ness symbolic", 0, 0), sh("HarnessC10Nil", "nilable target: *P0 from a converter, nil-ness symbolic", 0, 1),
			sh("HarnessC10Nil", "nilable target: []P0 supplied directly, nil-ness symbolic", 0, 2), sh("HarnessC10Nil", "nilable target: []P0 from a converter, nil-ness symbolic", 0, 3),
			sh("HarnessC10Seq", "histories of 3 Convert calls over 4 target types (two distinct same-named local types, P0, interface)", 0, 3)},
		Covers:   []string{"C10.both-returned", "C10.failure-checked", "C10.success-checked", "C10.conversion-used", "C10.nilable-checked", "C10.seq-checked"},
		Bounds:   []string{"target type symbolic over the family's pool (concrete and interface), <=2 supplied values, <=2 converters with symbolic labels; Convert and the identity call run in the same path on the same options"},
		Outside:  []string{"as C01", "targets with names or subtypes (Convert takes a plain type)"},
		Assume:   common,
		Anchored: []string{"github.com/hashicorp/go-argmapper.Convert", "github.com/hashicorp/go-argmapper.convertMulti", "github.com/hashicorp/go-argmapper.convertFunc"},
		CVQuick:  2, CVThor: 4,
	})
	c14 := func(inF, outF, k, errPos int64) Shard {
		fn := []string{"positional", "struct", "*struct", "**struct", "struct mixed with another parameter", "empty"}
		return sh("HarnessC14", fmt.Sprintf("inputs %s, results %s, %d entries each, error position %d (0 none, 1 final, 2 first, 3 two trailing errors)", fn[inF], fn[outF], k, errPos), 0, inF, outF, k, errPos)
	}
	c14s := func(kind int64) Shard {
		return sh("HarnessC14Static", fmt.Sprintf("static catalogue entry %d", kind), 0, kind)
	}
	register(&PropSpec{
		ID: "C14", Pkg: "argmapper",
		Quick: []Shard{c14(1, 5, 2, 0), c14(2, 0, 1, 1), c14(0, 1, 2, 1), c14(5, 2, 2, 0), c14(0, 0, 2, 2), c14(3, 5, 1, 0), c14(4, 5, 1, 0), c14(5, 3, 1, 1), c14(5, 4, 1, 0), c14(0, 0, 1, 3), c14(5, 5, 0, 3),
			c14s(0), c14s(1), c14s(2), c14s(3), c14s(4), c14s(5)},
		Thorough: []Shard{c14(1, 5, 2, 0), c14(2, 0, 2, 1), c14(0, 1, 2, 1), c14(5, 2, 2, 0), c14(0, 0, 3, 2), c14(3, 5, 1, 0), c14(4, 5, 1, 0), c14(5, 3, 1, 1), c14(5, 4, 1, 0), c14(1, 2, 1, 1), c14(2, 1, 1, 0), c14(0, 0, 2, 3), c14(0, 5, 3, 1), c14(5, 0, 3, 3),
			c14s(0), c14s(1), c14s(2), c14s(3), c14s(4), c14s(5)},
		Covers:   []string{"C14.sets-checked", "C14.rejection-checked", "C14.pointer-struct-form", "C14.static-checked"},
		Bounds:   []string{"field lists of <=2 fields (3 positional entries); per field the tag is drawn symbolically from the grammar [name in {none,x,Yy,ZED}][,typeOnly][,subtype=s][,unknown option] or empty tag, type in {P0,P1,I}; forms positional/struct/*struct/**struct/mixed/empty for inputs and results; error absent/final/first", "a static catalogue of real Go signatures (unexported fields, marker not in first position, plain structs, non-function values)"},
		Outside:  []string{"more than 3 fields", "lists that repeat a name, a type-only type or a (type,subtype) pair (well-formedness)", "tags outside the grammar"},
		Assume:   []string{"reflect.StructOf/FuncOf/MakeFunc are modelled over go/types"},
		Anchored: []string{"github.com/hashicorp/go-argmapper.newValueSetFromStruct", "github.com/hashicorp/go-argmapper.newValueSet", "github.com/hashicorp/go-argmapper.NewFunc", "github.com/hashicorp/go-argmapper.isStruct"},
		CVQuick:  2, CVThor: 4,
	})
	c15b := func(nIn, nOut, calls, cons int64) Shard {
		return sh("HarnessC15Built", fmt.Sprintf("built function with %d inputs, %d outputs (symbolic labels, F-full), %d consecutive calls, downstream consumer=%d, symbolic failure", nIn, nOut, calls, cons), 0, nIn, nOut, calls, cons)
	}
	register(&PropSpec{
		ID: "C15", Pkg: "argmapper",
		Quick: []Shard{sh("HarnessC15Set", "value lists of 1 value", 0, 1), sh("HarnessC15Set", "value lists of 2 values", 0, 2), sh("HarnessC15Set", "empty value list", 0, 0), c15b(1, 1, 2, 1), c15b(2, 1, 2, 0), c15b(1, 2, 1, 1), c15b(0, 1, 1, 1),
			sh("HarnessC15Out", "built converter with a named and a type-only output of one type, consumer fed by the type-only output", 0, 3), sh("HarnessC15Out", "same with a struct-form converter", 0, 1)},
		Thorough: []Shard{sh("HarnessC15Set", "value lists of 1 value", 0, 1), sh("HarnessC15Set", "value lists of 2 values", 0, 2), sh("HarnessC15Set", "value lists of 3 values", 0, 3), sh("HarnessC15Set", "empty value list", 0, 0), c15b(1, 1, 3, 1), c15b(2, 1, 2, 1), c15b(1, 2, 2, 1), c15b(2, 2, 1, 1), c15b(0, 1, 1, 1), c15b(1, 0, 2, 0),
			sh("HarnessC15Out", "built converter with a named and a type-only output of one type, consumer fed by the type-only output", 0, 3), sh("HarnessC15Out", "same with a struct-form converter", 0, 1), sh("HarnessC15Out", "same with a *struct-form converter", 0, 2)},
		Covers:   []string{"C15.set-checked", "C15.built-call-checked", "C15.built-error-path", "C15.consumer-checked", "C15.omitted-input-checked", "C15.out-checked"},
		Bounds:   []string{"value lists of <=2 (quick) / 3 (thorough) values with symbolic name in {'',a,Bb}, type in {P0,P1,P2}, subtype in {'',s}; payloads symbolic", "built functions with <=2 inputs and <=2 outputs, symbolic labels, symbolic failure, 1-3 consecutive calls, optional downstream consumer; compared with an ordinary (struct-form) twin"},
		Outside:  []string{"value lists that repeat a name or a type-only type", "more than 3 values"},
		Assume:   common,
		Anchored: []string{"github.com/hashicorp/go-argmapper.NewValueSet", "(*github.com/hashicorp/go-argmapper.ValueSet).FromSignature", "(*github.com/hashicorp/go-argmapper.ValueSet).SignatureValues", "github.com/hashicorp/go-argmapper.BuildFunc"},
		CVQuick:  2, CVThor: 4,
	})
	register(&PropSpec{
		ID: "C16", Pkg: "argmapper",
		Quick:    []Shard{sh("HarnessC16Conv", "a parameter with an exactly matching option (default / override / duplicate) next to one produced by a converter whose result also carries that key", 0, 0), sh("HarnessC16", "3 symbolic options (Named/NamedSubtype/TypedSubtype with symbolic spellings and subtypes, nil value) split symbolically into defaults, first call, second call", 0, 3, 0, 0), sh("HarnessC16", "2 symbolic options after three fixed base defaults (override, then rely on the default again)", 0, 2, 0, 1), sh("HarnessC16", "2 symbolic options incl. nil option, after base defaults", 0, 2, 1, 1), sh("HarnessC16Perm", "permutations of 3 exact options", 0, 3, 0), sh("HarnessC16Perm", "permutations of 3 exact options + distractor converter", 0, 3, 1), sh("HarnessC16Alias", "two functions whose defaults share one backing slice with spare capacity", 0, 0)},
		Thorough: []Shard{sh("HarnessC16Alias", "two functions whose defaults share one backing slice with spare capacity", 0, 0), sh("HarnessC16Conv", "a parameter with an exactly matching option (default / override / duplicate) next to one produced by a converter whose result also carries that key", 0, 0), sh("HarnessC16", "4 symbolic options split symbolically into defaults, first call, second call", 0, 4, 0, 0), sh("HarnessC16", "3 symbolic options after three fixed base defaults", 0, 3, 0, 1), sh("HarnessC16", "3 symbolic options incl. nil option", 0, 3, 1, 0), sh("HarnessC16Perm", "permutations of 4 exact options", 0, 4, 0), sh("HarnessC16Perm", "permutations of 4 exact options + distractor converter", 0, 4, 1)},
		Covers:   []string{"C16.conv-checked", "C16.call-returned", "C16.values-checked", "C16.default-applies", "C16.call-overrides-or-supplies", "C16.nil-option-checked", "C16.permutation-checked", "C16.second-call-checked", "C16.alias-checked"},
		Bounds:   []string{"option lists of <=3 (quick) / 4 (thorough) options, each symbolically Named / NamedSubtype (spellings symbolic) / Typed / TypedSubtype / nil value / nil option, split symbolically into construction defaults, the options of a first call and the options of a second call on the same Func; field-name spelling symbolic", "all permutations of 3/4 exactly matching options, with and without a distractor converter"},
		Outside:  []string{"longer option lists", "non-ASCII names"},
		Assume:   common,
		Anchored: []string{"github.com/hashicorp/go-argmapper.Named", "github.com/hashicorp/go-argmapper.Typed", "github.com/hashicorp/go-argmapper.newArgBuilder", "(*github.com/hashicorp/go-argmapper.Func).argBuilder"},
		CVQuick:  2, CVThor: 4,
	})
	c17 := func(k, final, form int64) Shard {
		return sh("HarnessC17", fmt.Sprintf("%d results + final slot %d (0 none, 1 error, 2 concrete error type, 3 interface{}, 4 interface with error's method set), form %d (0 positional, 1 marker struct, 2 pointer to marker struct with symbolic nil-ness)", k, final, form), 0, k, final, form)
	}
	var c17all []Shard
	for k := int64(0); k <= 3; k++ {
		for final := int64(0); final <= 4; final++ {
			for form := int64(0); form <= 2; form++ {
				if form > 0 && (k == 0 || final >= 2) {
					continue // a marker-struct result may only be followed by an error (NewFunc rejects other shapes)
				}
				c17all = append(c17all, c17(k, final, form))
			}
		}
	}
	for kind := int64(0); kind < 4; kind++ {
		c17all = append(c17all, sh("HarnessC17Fail", fmt.Sprintf("resolution failure scenario %d", kind), 0, kind), sh("HarnessC17Once", fmt.Sprintf("run-once function (form %d) used as a converter, then called directly twice, then unresolvably", kind), 0, kind))
	}
	register(&PropSpec{
		ID: "C17", Pkg: "argmapper",
		Thorough: c17all,
		Quick: []Shard{c17(0, 0, 0), c17(0, 1, 0), c17(1, 1, 0), c17(2, 1, 0), c17(2, 0, 0), c17(2, 2, 0), c17(3, 1, 0), c17(2, 1, 1), c17(1, 0, 1), c17(0, 2, 0), c17(2, 1, 2), c17(1, 0, 2), c17(0, 3, 0), c17(1, 3, 0), c17(0, 4, 0), c17(2, 4, 0),
			sh("HarnessC17Fail", "resolution failure: missing argument", 0, 0), sh("HarnessC17Fail", "resolution failure: nil option", 0, 1), sh("HarnessC17Fail", "resolution failure: converter input missing", 0, 2), sh("HarnessC17Fail", "failing converter", 0, 3),
			sh("HarnessC17Once", "run-once function (struct form) used as a converter, then called directly twice", 0, 1), sh("HarnessC17Once", "run-once function (*struct form) used as a converter, then called directly twice", 0, 2),
			sh("HarnessC17Once", "run-once function (positional form) used as a converter, then called directly twice", 0, 0), sh("HarnessC17Once", "run-once function (built form) used as a converter, then called directly twice", 0, 3)},
		Covers:   []string{"C17.accessors-checked", "C17.final-error-checked", "C17.non-final-error-checked", "C17.concrete-error-type-is-an-output", "C17.resolution-failure-checked", "C17.once-checked", "C17.nil-pointer-struct-checked", "C17.final-non-error-interface-checked"},
		Bounds:   []string{"all result arities 0..3 with result kinds drawn symbolically from {P0,P1,error,P2} (distinct), final slot none / error / concrete error type / interface{} / a non-error interface with error's method set (the last two nil or holding an error value), nil-ness of every error slot symbolic; positional and marker-struct results; accessor order (Err/Out before Len) symbolic", "four resolution-failure scenarios; an unresolvable call of a run-once function that already holds a cached result"},
		Outside:  []string{"more than 3 results before the final slot", "result lists repeating a type"},
		Assume:   common,
		Anchored: []string{"(*github.com/hashicorp/go-argmapper.Result).Err", "(*github.com/hashicorp/go-argmapper.Result).Len", "(*github.com/hashicorp/go-argmapper.Result).Out", "(*github.com/hashicorp/go-argmapper.Result).hasError", "(*github.com/hashicorp/go-argmapper.Func).callDirect"},
		CVQuick:  2, CVThor: 4,
	})

	w8 := func(entry string, fam, nT, nV, conv, form, x int64, xs ...int64) Shard {
		args := append([]int64{fam, nT, nV, conv, form, x}, xs...)
		return sh(entry, fmt.Sprintf("%s: %d target params, %d supplied values, converters=%d, forms=%s, extra=%v", famNames[fam], nT, nV, conv, formNames[form], append([]int64{x}, xs...)), 0, args...)
	}
	register(&PropSpec{
		ID: "C08", Pkg: "argmapper",
		Quick:    []Shard{w8("HarnessC08", 1, 1, 1, 12, 1, 1), w8("HarnessC08", 1, 1, 1, 0, 1, 2), w8("HarnessC08", 1, 2, 1, 11, 1, 1), w8("HarnessC08", 1, 1, 1, 11, 1, 2), w8("HarnessC08", 5, 1, 1, 1111, 3, 1), w8("HarnessC08", 0, 2, 1, 11, 0, 0), w8("HarnessC08", 8, 1, 1, 11, 1, 4), w8("HarnessC08", 4, 1, 1, 11, 1, 4)},
		Thorough: []Shard{w8("HarnessC08", 1, 1, 1, 12, 1, 1), w8("HarnessC08", 8, 1, 1, 11, 1, 4), w8("HarnessC08", 4, 1, 1, 11, 1, 4), w8("HarnessC08", 0, 1, 1, 11, 9, 4), w8("HarnessC08", 1, 1, 1, 0, 1, 2), w8("HarnessC08", 1, 2, 1, 11, 1, 1), w8("HarnessC08", 1, 1, 1, 11, 1, 2), w8("HarnessC08", 5, 1, 1, 1111, 3, 2), w8("HarnessC08", 0, 2, 1, 11, 0, 0), w8("HarnessC08", 5, 2, 1, 1111, 1, 1), w8("HarnessC08", 5, 1, 0, 111111, 1, 1), w8("HarnessC08", 4, 1, 1, 1111, 1, 1), w8("HarnessC08", 0, 1, 1, 11, 9, 1)},
		Covers:   []string{"C08.redefine-returned", "C08.redefine-succeeded", "C08.redefined-call-checked", "C08.output-filter-rejection", "C08.library-type-filter"},
		Bounds:   []string{"worlds restricted (by assumption) to the property's domain: converters with <=1 input, no subtypes, each name one type; <=2 target parameters, <=2 supplied values, chains of <=2 (quick) / 3 (thorough) converters", "input and output filters are uninterpreted predicates: one symbolic Bool per (name,type) asked", "extra=4: the input filter is a symbolic set of the world's types (plus the assignable twin of hList / []int) built from the library's FilterType / FilterOr / FilterAnd; each of its answers is compared with the documented meaning"},
		Outside:  []string{"multi-input converters, subtypes, names denoting several types (outside the property's domain)", "longer chains"},
		Assume:   common,
		Anchored: []string{"(*github.com/hashicorp/go-argmapper.Func).Redefine", "(*github.com/hashicorp/go-argmapper.Func).redefineInputs", "(*github.com/hashicorp/go-argmapper.Func).redefineOutputs", "(*github.com/hashicorp/go-argmapper.Func).zeroFunc", "(*github.com/hashicorp/go-argmapper.Func).callGraph"},
		CVQuick:  2, CVThor: 4,
	})
	register(&PropSpec{
		ID: "C09", Pkg: "argmapper", RaceReplay: true,
		Quick:    []Shard{w8("HarnessC09", 0, 1, 1, 11, 1, 2, 1), w8("HarnessC09", 0, 1, 1, 11, 9, 1, 1), w8("HarnessC09", 0, 1, 1, 1111, 1, 1, 1), w8("HarnessC09", 0, 1, 1, 11, 1, 1, 0), w8("HarnessC09", 0, 1, 0, 91, 1, 1, 1), w8("HarnessC09", 0, 1, 1, 9111, 1, 1, 0)},
		Thorough: []Shard{w8("HarnessC09", 0, 1, 1, 11, 1, 3, 1), w8("HarnessC09", 0, 1, 1, 11, 9, 2, 1), w8("HarnessC09", 0, 1, 1, 1111, 1, 2, 1), w8("HarnessC09", 1, 1, 1, 11, 1, 2, 1), w8("HarnessC09", 4, 1, 1, 11, 1, 2, 0), w8("HarnessC09", 0, 1, 1, 1121, 1, 1, 1), w8("HarnessC09", 3, 1, 1, 11, 1, 1, 1)},
		Covers:   []string{"C09.redefines-done", "C09.results-compared", "C09.run-once-checked"},
		Bounds:   []string{"template worlds with 1-2 converters (one of them optionally run-once); 1-3 Redefine calls, each one of seven symbolically chosen variants (plain, type filter, admit-nothing filter, reject-all output filter, fewer supplied values, interface/OR filter, first converter offered through a ConverterGen), then Call; compared with a twin world that only Calls", "write tracking: every store to a cell reachable from the supplied Func objects and option slice during Redefine"},
		Outside:  []string{"more than 3 Redefine calls before the Call", "more than 2 converters"},
		Assume:   common,
		Anchored: []string{"(*github.com/hashicorp/go-argmapper.Func).Redefine", "(*github.com/hashicorp/go-argmapper.Func).redefineInputs", "(*github.com/hashicorp/go-argmapper.Func).zeroFunc"},
		CVQuick:  2, CVThor: 4,
	})
	c11 := func(n, form int64) Shard {
		return sh("HarnessC11", fmt.Sprintf("histories of %d operations from {Call target1, Call target2, Convert, Redefine}, run-once converter in %s form, symbolic failure", n, formNames[form]), 0, n, form)
	}
	c11t := func(form, nOut, hasErr int64) Shard {
		return sh("HarnessC11Target", fmt.Sprintf("the run-once function is the target of three direct calls: %s form, %d outputs, error result %d; value-set accessors used on the results symbolically", formNames[form], nOut, hasErr), 0, form, nOut, hasErr)
	}
	var c11tAll []Shard
	for form := int64(0); form <= 3; form++ {
		for nOut := int64(0); nOut <= 2; nOut++ {
			for hasErr := int64(0); hasErr <= 1; hasErr++ {
				if form == 2 && nOut == 0 {
					continue // a pointer-to-struct result needs a field
				}
				c11tAll = append(c11tAll, c11t(form, nOut, hasErr))
			}
		}
	}
	register(&PropSpec{
		ID: "C11", Pkg: "argmapper",
		Quick: []Shard{c11(2, 1), c11(3, 3), c11(2, 2),
			sh("HarnessC11Par", "two goroutines calling the same target, run-once converter struct form, <=3 context switches", 0, 1, 0, 3), sh("HarnessC11Par", "goroutine A calls the target, B Converts, run-once converter *struct form, <=3 context switches", 0, 2, 1, 3),
			sh("HarnessC11Within", "two needs within one call, struct form", 0, 1), sh("HarnessC11Within", "two needs within one call, built form", 0, 3),
			c11t(0, 0, 0), c11t(0, 2, 1), c11t(1, 1, 0), c11t(3, 2, 0), c11t(1, 0, 1), c11t(2, 2, 1)},
		Thorough: append(c11tAll, c11(3, 1), c11(4, 3), c11(3, 2), c11(5, 1),
			sh("HarnessC11Par", "two goroutines calling the same target, run-once converter struct form, <=6 context switches", 0, 1, 0, 6), sh("HarnessC11Par", "target/Convert, run-once converter built form, <=6 context switches", 0, 3, 1, 6), sh("HarnessC11Par", "two goroutines, positional-result... *struct form, <=5 context switches", 0, 2, 0, 5),
			sh("HarnessC11Within", "two needs within one call, struct form", 0, 1), sh("HarnessC11Within", "two needs within one call, built form", 0, 3), sh("HarnessC11Within", "two needs within one call, *struct form", 0, 2)),
		Covers:   []string{"C11.target-checked", "C11.history-checked", "C11.later-use-checked", "C11.cached-error-checked", "C11.within-call-checked", "C11.par-checked"},
		Bounds:   []string{"concurrent clause: two goroutines each performing one call that needs the shared run-once converter, all interleavings with <=3 (quick) / 6 (thorough) context switches (vnPar)", "sequential histories of <=3 (quick) / 5 (thorough) operations chosen symbolically from Call on two targets, Convert and Redefine, all needing one run-once converter (directly or through a second converter), fresh symbolic arguments per operation, symbolic failure of the first execution", "repeated needs within one call", "the run-once function as the direct target of three calls: 0-2 outputs, with/without (failing) error result, all four forms, Output().FromResult between calls"},
		Outside:  []string{"interleavings beyond two goroutines x one call each and beyond the stated number of context switches; handover only at mutex operations and at accesses to assigned fields of the shared objects", "histories longer than 5"},
		Assume:   common,
		Anchored: []string{"(*github.com/hashicorp/go-argmapper.Func).callDirect", "github.com/hashicorp/go-argmapper.FuncOnce"},
		CVQuick:  2, CVThor: 4,
	})
	c12 := func(op, once int64) Shard {
		ops := []string{"Call", "Convert", "Redefine", "Call twice + Convert", "Redefine + call of the redefined function", "call of a shared function that an earlier Redefine returned"}
		return sh("HarnessC12", fmt.Sprintf("operation %s, together with a second symbolically chosen operation (two goroutines natively), on shared target/converters/options/redefined function (symbolic option mix, target symbolically failing), run-once converter=%d", ops[op], once), 0, op, once)
	}
	register(&PropSpec{
		ID: "C12", Pkg: "argmapper", RaceReplay: true,
		Quick: []Shard{c12(0, 0), c12(1, 0), c12(2, 0), c12(3, 0), c12(4, 0), c12(0, 1), c12(3, 1), c12(5, 0), c12(5, 1),
			sh("HarnessC12Par", "outcome clause: two goroutines, shared run-once converter (struct form), interleavings with <=3 context switches", 0, 1, 3), sh("HarnessC12Par", "outcome clause: two goroutines, shared run-once converter (*struct form), <=3 context switches", 0, 2, 3)},
		Thorough: []Shard{c12(0, 0), c12(1, 0), c12(2, 0), c12(3, 0), c12(4, 0), c12(0, 1), c12(1, 1), c12(2, 1), c12(3, 1), c12(4, 1), c12(5, 0), c12(5, 1),
			sh("HarnessC12Par", "outcome clause: two goroutines, shared run-once converter (struct form), <=6 context switches", 0, 1, 6), sh("HarnessC12Par", "outcome clause: shared run-once converter (*struct form), <=6 context switches", 0, 2, 6), sh("HarnessC12Par", "outcome clause: shared run-once converter (built form), <=5 context switches", 0, 3, 5)},
		Covers:   []string{"C12.operation-checked", "C12.par-checked"},
		Bounds:   []string{"shared objects: a struct-form target with default options, two converters (one optionally run-once), an option slice whose composition (Named, NamedSubtype, TypedSubtype, ConverterFunc/Converter, ConverterGen, filters) is symbolic; a function returned by an earlier Redefine; TWO operations per path (the second chosen symbolically) from Call, Convert, Redefine, repeated use, Redefine + call of the result, call of the shared redefined function; the target fails symbolically", "accesses: every interpreter store (Store, map update/delete, append into spare capacity, copy, reflect.Value.Set) and every load of library code to a cell reachable from the shared objects or from package-level variables, recorded with the set of locks held (sync.Mutex/RWMutex; a sync.Once being executed or already passed counts as a lock; sync/atomic operations are exempt)", "oracle: no store without a lock; no cell stored under a lock and loaded or stored under a lockset sharing no lock with it (Eraser lockset criterion)", "native confirmation: the two operations as two goroutines (and each against itself), 60 runs with a random stagger under the race detector"},
		Outside:  []string{"functions assembled with BuildFunc (excluded by the property)", "user callbacks", "the Go memory model below the granularity of interpreter loads and stores", "outcome equivalence under interleaving is implied only when the lock discipline holds", "happens-before edges other than locks, Once and atomics (channels, WaitGroup): the library uses none", "unguarded stores through a symbolic (non-concretised) slice index"},
		Assume:   append(common, "lock-discipline reduction (Eraser lockset): no store to pre-existing shared state without a lock, and no location stored under a lock and accessed under a lockset sharing no lock with it => race freedom under every interleaving"),
		Anchored: []string{"(*github.com/hashicorp/go-argmapper.Func).callDirect", "github.com/hashicorp/go-argmapper.NamedSubtype", "github.com/hashicorp/go-argmapper.newArgBuilder", "(*github.com/hashicorp/go-argmapper.Func).argBuilder"},
		CVQuick:  0, CVThor: 0,
	})
}
