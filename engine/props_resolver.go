package engine

import "fmt"

var famNames = []string{"F-type", "F-name", "F-sub", "F-full", "F-iface"}
var formNames = map[int64]string{0: "built", 1: "struct", 2: "*struct", 3: "positional where possible", 9: "symbolic form per function"}

// world describes one resolver template shard.
func world(entry string, fam, nT, nV, conv, form, sv int64) Shard {
	return sh(entry, fmt.Sprintf("%s: %d target params, %d supplied values, converters(in,out digits)=%d, forms=%s, schedule vector %d", famNames[fam], nT, nV, conv, formNames[form], sv), 0, fam, nT, nV, conv, form, sv)
}

func registerResolver() {
	resolverFns := []string{
		"(*github.com/hashicorp/go-argmapper.Func).Call", "(*github.com/hashicorp/go-argmapper.Func).callGraph",
		"(*github.com/hashicorp/go-argmapper.Func).reachTarget", "(*github.com/hashicorp/go-argmapper.Func).callDirect",
		"(*github.com/hashicorp/go-argmapper.Func).graph", "(*github.com/hashicorp/go-argmapper.argBuilder).graph",
		"(*github.com/hashicorp/go-argmapper.Func).outputValues",
	}
	common := []string{"names never contain '/', type names are distinct (hash codes are formatted strings)", "user functions are pure and total: their results are uninterpreted functions of their inputs",
		"Graph.String (trace logging only) is cut", "hclog is an inert logger"}
	register(&PropSpec{
		ID: "C01", Pkg: "argmapper",
		Quick: []Shard{
			world("HarnessC01", 1, 1, 2, 0, 0, 0), world("HarnessC01", 2, 1, 2, 0, 1, 0), world("HarnessC01", 3, 1, 1, 0, 9, 0),
			world("HarnessC01", 0, 1, 1, 11, 9, 0), world("HarnessC01", 1, 1, 1, 11, 1, 0), world("HarnessC01", 2, 1, 1, 11, 0, 1),
		},
		Thorough: []Shard{
			world("HarnessC01", 1, 1, 2, 0, 0, 0), world("HarnessC01", 2, 1, 2, 0, 1, 0), world("HarnessC01", 3, 1, 2, 0, 9, 0),
			world("HarnessC01", 0, 1, 1, 11, 9, 0), world("HarnessC01", 1, 1, 1, 11, 1, 0), world("HarnessC01", 2, 1, 1, 11, 0, 1), world("HarnessC01", 3, 1, 1, 11, 0, 0),
			world("HarnessC01", 0, 1, 1, 1111, 1, 0), world("HarnessC01", 1, 2, 1, 11, 0, 0), world("HarnessC01", 0, 1, 2, 21, 1, 0),
		},
		Covers: []string{"C01.call-returned", "C01.target-ran", "C01.converter-ran", "C01.parameter-checked"},
		Bounds: []string{"label pools per family: F-type {P0,P1,P2,I}; F-name names {'',a,b} x {P0,P1}; F-sub subtypes {'',s,t}; F-full names x types x {'',s}; labels are symbolic pool indices (solver-forked), payloads symbolic",
			"templates (target params, supplied values, converter arities, forms) as listed per shard"},
		Outside:  []string{"variadic functions", "more than 3 target parameters / 3 supplied values / 2 converters per template", "payload-dependent user code", "iteration orders other than insertion order and the seeded vectors"},
		Assume:   common,
		Anchored: resolverFns,
		CVQuick:  3, CVThor: 6,
	})
	register(&PropSpec{
		ID: "C02", Pkg: "argmapper",
		Quick: []Shard{
			world("HarnessC02", 1, 1, 2, 0, 0, 0), world("HarnessC02", 2, 1, 2, 0, 1, 0), world("HarnessC02", 3, 1, 1, 0, 9, 0),
			world("HarnessC02", 0, 1, 1, 11, 9, 0), world("HarnessC02", 1, 1, 1, 11, 1, 0), world("HarnessC02", 2, 1, 1, 11, 0, 1),
		},
		Thorough: []Shard{
			world("HarnessC02", 1, 1, 2, 0, 0, 0), world("HarnessC02", 2, 1, 2, 0, 1, 0), world("HarnessC02", 3, 1, 2, 0, 9, 0),
			world("HarnessC02", 0, 1, 1, 11, 9, 0), world("HarnessC02", 1, 1, 1, 11, 1, 0), world("HarnessC02", 2, 1, 1, 11, 0, 1), world("HarnessC02", 3, 1, 1, 11, 0, 0),
			world("HarnessC02", 0, 1, 1, 1111, 1, 0), world("HarnessC02", 0, 1, 1, 2121, 1, 0), world("HarnessC02", 0, 1, 2, 21, 1, 0),
		},
		Covers:   []string{"C02.underivable-world"},
		Bounds:   []string{"as C01, restricted (by assumption) to worlds with a target parameter outside the least fixpoint of derivable values under the C01 matching table"},
		Outside:  []string{"as C01"},
		Assume:   common,
		Anchored: resolverFns,
		CVQuick:  3, CVThor: 6,
	})
}
