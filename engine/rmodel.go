package engine

import (
	"fmt"
	"go/token"
	"go/types"
	"reflect"
	"strings"

	"golang.org/x/tools/go/ssa"
	"golang.org/x/tools/go/types/typeutil"
)

// ---- model objects ----

// RType is the canonical representative of a reflect.Type.
type RType struct {
	t  types.Type
	id int
}

// RValue models reflect.Value: static type + (addressable cell | plain value).
type RValue struct {
	valid bool
	t     types.Type
	p     *Value // addressable storage, or
	v     Value  // plain value
}

func (r RValue) load() Value {
	if r.p != nil {
		return copyVal(*r.p)
	}
	return r.v
}

// MakeFuncObj is a function value created by reflect.MakeFunc.
type MakeFuncObj struct {
	t  *types.Signature
	tt types.Type
	fn Value // func([]reflect.Value) []reflect.Value
}

// HostObj is an opaque object implemented by the engine (logger, buffers...).
type HostObj struct {
	kind string
	data interface{}
}

type RModel struct {
	it     *Interp
	canon  typeutil.Map
	nTypes int
	rtypeT types.Type // *reflect.rtype (dynamic type used for reflect.Type ifaces)
	sfType *types.Struct
	sfIdx  map[string]int
	anyT   types.Type
	errorT types.Type
	xpkg   *types.Package
	bufs   map[*Value]*strings.Builder

	locksHeld   int
	held        []*Value // mutexes held (sequential model)
	oncePassed  map[oncePass]bool
	onceDone    map[*Value]bool
	onceRunning map[*Value]int
	syncMaps    map[*Value]*Map
	pcOf        map[*ssa.Function]int64
	pcNames     map[int64]string
}

type oncePass struct {
	once   *Value
	thread int
}

func newRModel(it *Interp) *RModel {
	m := &RModel{it: it}
	m.anyT = types.NewInterfaceType(nil, nil)
	m.errorT = types.Universe.Lookup("error").Type()
	m.xpkg = types.NewPackage("x", "x")
	if rp := it.prog.ImportedPackage("reflect"); rp != nil {
		m.rtypeT = types.NewPointer(rp.Pkg.Scope().Lookup("rtype").Type())
		sf := rp.Pkg.Scope().Lookup("StructField").Type().Underlying().(*types.Struct)
		m.sfType = sf
		m.sfIdx = map[string]int{}
		for i := 0; i < sf.NumFields(); i++ {
			m.sfIdx[sf.Field(i).Name()] = i
		}
	} else {
		m.rtypeT = types.Typ[types.UnsafePointer]
	}
	m.bufs = map[*Value]*strings.Builder{}
	return m
}

// codePointer gives an ordinary function a stable pseudo code pointer (>= 16).
func (m *RModel) codePointer(fn *ssa.Function) int64 {
	if m.pcOf == nil {
		m.pcOf = map[*ssa.Function]int64{}
		m.pcNames = map[int64]string{}
	}
	if pc, ok := m.pcOf[fn]; ok {
		return pc
	}
	pc := int64(16 + len(m.pcOf))
	m.pcOf[fn] = pc
	name := fn.String()
	// runtime names closures pkg.outer.func1; go/ssa names them outer$1
	name = strings.ReplaceAll(name, "$", ".func")
	m.pcNames[pc] = name
	return pc
}

func (m *RModel) resetPath() {
	m.bufs = map[*Value]*strings.Builder{}
	m.locksHeld = 0
	m.held = nil
	m.oncePassed = nil
	m.onceDone = nil
	m.onceRunning = nil
	m.syncMaps = nil
}

func (m *RModel) rt(t types.Type) *RType {
	if v := m.canon.At(t); v != nil {
		return v.(*RType)
	}
	m.nTypes++
	r := &RType{t: t, id: m.nTypes}
	m.canon.Set(t, r)
	return r
}

func qualifier(p *types.Package) string { return p.Name() }

func (r *RType) String() string { return types.TypeString(r.t, qualifier) }

func (m *RModel) typeIface(t types.Type) Iface { return Iface{m.rtypeT, m.rt(t)} }

func (m *RModel) typeArg(v Value) types.Type {
	i, ok := v.(Iface)
	if !ok || i.t == nil {
		panic(runtimePanic("invalid memory address or nil pointer dereference (nil reflect.Type)"))
	}
	return i.v.(*RType).t
}

func isRValueType(t types.Type) bool {
	if n, ok := t.(*types.Named); ok {
		o := n.Obj()
		return o.Pkg() != nil && o.Pkg().Path() == "reflect" && o.Name() == "Value"
	}
	return false
}

func kindOf(t types.Type) reflect.Kind {
	switch u := t.Underlying().(type) {
	case *types.Basic:
		switch u.Kind() {
		case types.Bool:
			return reflect.Bool
		case types.Int:
			return reflect.Int
		case types.Int8:
			return reflect.Int8
		case types.Int16:
			return reflect.Int16
		case types.Int32:
			return reflect.Int32
		case types.Int64:
			return reflect.Int64
		case types.Uint:
			return reflect.Uint
		case types.Uint8:
			return reflect.Uint8
		case types.Uint16:
			return reflect.Uint16
		case types.Uint32:
			return reflect.Uint32
		case types.Uint64:
			return reflect.Uint64
		case types.Uintptr:
			return reflect.Uintptr
		case types.Float32:
			return reflect.Float32
		case types.Float64:
			return reflect.Float64
		case types.String:
			return reflect.String
		case types.UnsafePointer:
			return reflect.UnsafePointer
		}
		return reflect.Invalid
	case *types.Struct:
		return reflect.Struct
	case *types.Pointer:
		return reflect.Ptr
	case *types.Interface:
		return reflect.Interface
	case *types.Signature:
		return reflect.Func
	case *types.Slice:
		return reflect.Slice
	case *types.Map:
		return reflect.Map
	case *types.Array:
		return reflect.Array
	case *types.Chan:
		return reflect.Chan
	}
	return reflect.Invalid
}

func isIfaceT(t types.Type) bool { _, ok := t.Underlying().(*types.Interface); return ok }

// box converts a raw interpreter value of static type t into an RValue.
func box(t types.Type, v Value) RValue { return RValue{valid: true, t: t, v: v} }

// asStatic converts an RValue into a raw value suitable for a slot of static type t.
func (m *RModel) asStatic(t types.Type, r RValue) Value {
	v := r.load()
	if isIfaceT(t) && !isIfaceT(r.t) {
		return Iface{r.t, v}
	}
	return v
}

func (m *RModel) assignable(from, to types.Type) bool {
	if types.Identical(from, to) {
		return true
	}
	return types.AssignableTo(from, to)
}

func rpanic(format string, a ...interface{}) targetPanic {
	return targetPanic{mkStringIface(fmt.Sprintf(format, a...))}
}

// typeMethod handles invoke calls on reflect.Type values.
func (m *RModel) typeMethod(r *RType, name string, args []Value) Value {
	t := r.t
	switch name {
	case "Kind":
		return int64(kindOf(t))
	case "String":
		return r.String()
	case "Name":
		if n, ok := t.(*types.Named); ok {
			return n.Obj().Name()
		}
		if b, ok := t.(*types.Basic); ok {
			return b.Name()
		}
		return ""
	case "PkgPath":
		if n, ok := t.(*types.Named); ok && n.Obj().Pkg() != nil {
			return n.Obj().Pkg().Path()
		}
		return ""
	case "Elem":
		switch u := t.Underlying().(type) {
		case *types.Pointer:
			return m.typeIface(u.Elem())
		case *types.Slice:
			return m.typeIface(u.Elem())
		case *types.Array:
			return m.typeIface(u.Elem())
		case *types.Map:
			return m.typeIface(u.Elem())
		}
		panic(rpanic("reflect: Elem of invalid type %s", r.String()))
	case "NumIn", "NumOut", "In", "Out", "IsVariadic":
		sig, ok := t.Underlying().(*types.Signature)
		if !ok {
			panic(rpanic("reflect: %s of non-func type %s", name, r.String()))
		}
		switch name {
		case "NumIn":
			return int64(sig.Params().Len())
		case "NumOut":
			return int64(sig.Results().Len())
		case "IsVariadic":
			return sig.Variadic()
		}
		i := int(m.it.concretizeIndex(args[0]))
		tup := sig.Params()
		if name == "Out" {
			tup = sig.Results()
		}
		if i < 0 || i >= tup.Len() {
			panic(rpanic("reflect: Func index out of bounds"))
		}
		return m.typeIface(tup.At(i).Type())
	case "NumField":
		st, ok := t.Underlying().(*types.Struct)
		if !ok {
			panic(rpanic("reflect: NumField of non-struct type %s", r.String()))
		}
		return int64(st.NumFields())
	case "Field":
		st, ok := t.Underlying().(*types.Struct)
		if !ok {
			panic(rpanic("reflect: Field of non-struct type %s", r.String()))
		}
		i := int(m.it.concretizeIndex(args[0]))
		if i < 0 || i >= st.NumFields() {
			panic(rpanic("reflect: Field index out of bounds"))
		}
		f := st.Field(i)
		sf := zero(m.sfType).(Struct)
		sf[m.sfIdx["Name"]] = f.Name()
		if !f.Exported() {
			pk := "x"
			if f.Pkg() != nil {
				pk = f.Pkg().Path()
			}
			sf[m.sfIdx["PkgPath"]] = pk
		}
		sf[m.sfIdx["Type"]] = m.typeIface(f.Type())
		sf[m.sfIdx["Tag"]] = st.Tag(i)
		sf[m.sfIdx["Anonymous"]] = f.Embedded()
		sf[m.sfIdx["Index"]] = []Value{int64(i)}
		return sf
	case "FieldByName":
		st, ok := t.Underlying().(*types.Struct)
		if !ok {
			panic(rpanic("reflect: FieldByName of non-struct type %s", r.String()))
		}
		name, _ := args[0].(string)
		obj, index, _ := types.LookupFieldOrMethod(t, false, nil, name)
		if f, ok := obj.(*types.Var); ok && f.IsField() && (f.Exported() || true) {
			// find the struct that directly holds the field to read its tag
			cur := st
			for _, ix := range index[:len(index)-1] {
				ft := cur.Field(ix).Type()
				if p, ok := ft.Underlying().(*types.Pointer); ok {
					ft = p.Elem()
				}
				cur, _ = ft.Underlying().(*types.Struct)
				if cur == nil {
					break
				}
			}
			sf := zero(m.sfType).(Struct)
			sf[m.sfIdx["Name"]] = f.Name()
			if !f.Exported() {
				pk := "x"
				if f.Pkg() != nil {
					pk = f.Pkg().Path()
				}
				sf[m.sfIdx["PkgPath"]] = pk
			}
			sf[m.sfIdx["Type"]] = m.typeIface(f.Type())
			if cur != nil {
				sf[m.sfIdx["Tag"]] = cur.Tag(index[len(index)-1])
			}
			sf[m.sfIdx["Anonymous"]] = f.Embedded()
			ixs := make([]Value, len(index))
			for i, ix := range index {
				ixs[i] = int64(ix)
			}
			sf[m.sfIdx["Index"]] = ixs
			return Tuple{sf, true}
		}
		return Tuple{zero(m.sfType), false}
	case "Implements":
		u := m.typeArg(args[0])
		ui, ok := u.Underlying().(*types.Interface)
		if !ok {
			panic(rpanic("reflect: non-interface type passed to Type.Implements"))
		}
		return types.Implements(t, ui)
	case "AssignableTo":
		return m.assignable(t, m.typeArg(args[0]))
	case "ConvertibleTo":
		return types.ConvertibleTo(t, m.typeArg(args[0]))
	case "Comparable":
		return types.Comparable(t)
	case "NumMethod":
		return int64(m.it.prog.MethodSets.MethodSet(t).Len())
	}
	panic(abortPath{"reflect.Type method not modelled: " + name})
}

func (m *RModel) hostMethod(o *HostObj, meth *types.Func, args []Value) Value {
	sig := meth.Type().(*types.Signature)
	switch o.kind {
	case "hclog":
		switch sig.Results().Len() {
		case 0:
			return nil
		case 1:
			rt := sig.Results().At(0).Type()
			if isIfaceT(rt) && meth.Name() != "ImpliedArgs" {
				// Named/With/ResetNamed... return a logger: hand back the same inert one
				if b, ok := rt.Underlying().(*types.Interface); ok && b.NumMethods() > 3 {
					return Iface{types.Typ[types.UnsafePointer], o}
				}
			}
			return zero(rt)
		}
		return zero(sig.Results())
	}
	panic(abortPath{"host method " + o.kind + "." + meth.Name()})
}

func (m *RModel) mkStruct(fields []Value) types.Type {
	var vars []*types.Var
	var tags []string
	seen := map[string]bool{}
	for _, fv := range fields {
		sf := fv.(Struct)
		name := sf[m.sfIdx["Name"]].(string)
		if name == "" {
			panic(rpanic("reflect.StructOf: field %d has no name", len(vars)))
		}
		if !token.IsIdentifier(name) {
			panic(rpanic("reflect.StructOf: field %d has invalid name", len(vars)))
		}
		ti, _ := sf[m.sfIdx["Type"]].(Iface)
		if ti.t == nil {
			panic(rpanic("reflect.StructOf: field %d has no type", len(vars)))
		}
		ft := ti.v.(*RType).t
		anon := sf[m.sfIdx["Anonymous"]].(bool)
		if seen[name] {
			panic(rpanic("reflect.StructOf: duplicate field %s", name))
		}
		seen[name] = true
		var pkg *types.Package
		if !token.IsExported(name) {
			pkgPath, _ := sf[m.sfIdx["PkgPath"]].(string)
			if pkgPath == "" {
				panic(rpanic("reflect.StructOf: field %q is unexported but missing PkgPath", name))
			}
			pkg = m.xpkg
		}
		vars = append(vars, types.NewField(token.NoPos, pkg, name, ft, anon))
		tags = append(tags, sf[m.sfIdx["Tag"]].(string))
	}
	return types.NewStruct(vars, tags)
}

func (m *RModel) mkFunc(in, out []Value, variadic bool) types.Type {
	tup := func(vs []Value) *types.Tuple {
		var vars []*types.Var
		for _, v := range vs {
			vars = append(vars, types.NewVar(token.NoPos, nil, "", m.typeArg(v)))
		}
		return types.NewTuple(vars...)
	}
	return types.NewSignatureType(nil, nil, nil, tup(in), tup(out), variadic)
}

// callMakeFuncDirect: a MakeFunc object called as an ordinary function value.
func (m *RModel) callMakeFuncDirect(f *MakeFuncObj, args []Value) Value {
	sig := f.t
	boxed := make([]Value, len(args))
	for i := range args {
		boxed[i] = box(sig.Params().At(i).Type(), args[i])
	}
	outs := m.invokeMakeFunc(f, boxed)
	switch len(outs) {
	case 0:
		return nil
	case 1:
		return outs[0].(RValue).load()
	}
	tu := make(Tuple, len(outs))
	for i, o := range outs {
		tu[i] = o.(RValue).load()
	}
	return tu
}

func (m *RModel) invokeMakeFunc(f *MakeFuncObj, boxed []Value) []Value {
	sig := f.t
	r := m.it.callValue(f.fn, []Value{boxed})
	outs, _ := r.([]Value)
	if len(outs) != sig.Results().Len() {
		panic(rpanic("reflect: wrong return count from function created by MakeFunc"))
	}
	out := make([]Value, len(outs))
	for i, o := range outs {
		ro := o.(RValue)
		rt := sig.Results().At(i).Type()
		if !ro.valid {
			panic(rpanic("reflect: function created by MakeFunc using closure returned zero Value"))
		}
		if !m.assignable(ro.t, rt) {
			panic(rpanic("reflect: function created by MakeFunc using closure returned wrong type: have %s for %s", types.TypeString(ro.t, qualifier), types.TypeString(rt, qualifier)))
		}
		out[i] = box(rt, m.asStatic(rt, ro))
	}
	return out
}

func (m *RModel) callRValue(fn RValue, in []Value) []Value {
	if !fn.valid {
		panic(rpanic("reflect: call of reflect.Value.Call on zero Value"))
	}
	sig, ok := fn.t.Underlying().(*types.Signature)
	if !ok {
		panic(rpanic("reflect: call of reflect.Value.Call on %s Value", kindOf(fn.t)))
	}
	if sig.Variadic() {
		panic(abortPath{"reflect call of variadic function"})
	}
	if len(in) < sig.Params().Len() {
		panic(rpanic("reflect: Call with too few input arguments"))
	}
	if len(in) > sig.Params().Len() {
		panic(rpanic("reflect: Call with too many input arguments"))
	}
	args := make([]Value, len(in))
	for i, a := range in {
		ra := a.(RValue)
		pt := sig.Params().At(i).Type()
		if !ra.valid {
			panic(rpanic("reflect: Call using zero Value argument"))
		}
		if !m.assignable(ra.t, pt) {
			panic(rpanic("reflect: Call using %s as type %s", types.TypeString(ra.t, qualifier), types.TypeString(pt, qualifier)))
		}
		args[i] = m.asStatic(pt, ra)
	}
	var res Value
	switch f := fn.load().(type) {
	case *Closure:
		if f == nil {
			panic(rpanic("reflect: call of nil function"))
		}
		res = m.it.callValue(f, args)
	case *MakeFuncObj:
		boxed := make([]Value, len(args))
		for i := range args {
			boxed[i] = box(sig.Params().At(i).Type(), args[i])
		}
		if outs := m.invokeMakeFunc(f, boxed); len(outs) > 0 {
			return outs
		}
		return nil // reflect.Value.Call returns a nil slice for a function without results
	default:
		panic(abortPath{fmt.Sprintf("callRValue: %T", f)})
	}
	n := sig.Results().Len()
	switch n {
	case 0:
		return nil // as reflect.Value.Call does
	case 1:
		return []Value{box(sig.Results().At(0).Type(), res)}
	}
	tu := res.(Tuple)
	out := make([]Value, n)
	for i := range out {
		out[i] = box(sig.Results().At(i).Type(), tu[i])
	}
	return out
}

func (m *RModel) valueMethod(name string, args []Value) (Value, bool) {
	r, _ := args[0].(RValue)
	need := func() {
		if !r.valid {
			panic(targetPanic{mkStringIface("reflect: call of reflect.Value." + name + " on zero Value")})
		}
	}
	switch name {
	case "IsValid":
		return r.valid, true
	case "Type":
		need()
		return m.typeIface(r.t), true
	case "Kind":
		if !r.valid {
			return int64(0), true
		}
		return int64(kindOf(r.t)), true
	case "CanSet", "CanAddr":
		return r.valid && r.p != nil, true
	case "CanInterface":
		need()
		return true, true
	case "IsNil":
		need()
		switch v := r.load().(type) {
		case *Value:
			return v == nil, true
		case *Map:
			return v == nil, true
		case []Value:
			return v == nil, true
		case Iface:
			return v.t == nil, true
		case *Closure:
			return v == nil, true
		case *MakeFuncObj:
			return v == nil, true
		case nil:
			return true, true
		}
		panic(rpanic("reflect: call of reflect.Value.IsNil on %s Value", kindOf(r.t)))
	case "IsZero":
		need()
		eq := eqTerm(r.load(), zero(r.t))
		if t, ok := eq.(*Term); ok {
			return m.it.ex.decide(t), true // forks on a symbolic payload
		}
		return eq, true
	case "Elem":
		need()
		switch u := r.t.Underlying().(type) {
		case *types.Pointer:
			p := r.load().(*Value)
			if p == nil {
				return RValue{}, true
			}
			return RValue{valid: true, t: u.Elem(), p: p}, true
		case *types.Interface:
			i := r.load().(Iface)
			if i.t == nil {
				return RValue{}, true
			}
			return box(i.t, i.v), true
		}
		panic(rpanic("reflect: call of reflect.Value.Elem on %s Value", kindOf(r.t)))
	case "Addr":
		if !r.valid || r.p == nil {
			panic(rpanic("reflect.Value.Addr of unaddressable value"))
		}
		return box(types.NewPointer(r.t), r.p), true
	case "NumField":
		need()
		st, ok := r.t.Underlying().(*types.Struct)
		if !ok {
			panic(rpanic("reflect: call of reflect.Value.NumField on %s Value", kindOf(r.t)))
		}
		return int64(st.NumFields()), true
	case "Field":
		need()
		i := int(m.it.concretizeIndex(args[1]))
		st, ok := r.t.Underlying().(*types.Struct)
		if !ok {
			panic(rpanic("reflect: call of reflect.Value.Field on %s Value", kindOf(r.t)))
		}
		if i < 0 || i >= st.NumFields() {
			panic(rpanic("reflect: Field index out of range"))
		}
		if r.p != nil {
			return RValue{valid: true, t: st.Field(i).Type(), p: &(*r.p).(Struct)[i]}, true
		}
		return box(st.Field(i).Type(), copyVal(r.v.(Struct)[i])), true
	case "Set":
		x, _ := args[1].(RValue)
		if !r.valid {
			panic(rpanic("reflect: call of reflect.Value.Set on zero Value"))
		}
		if r.p == nil {
			panic(rpanic("reflect: reflect.Value.Set using unaddressable value"))
		}
		if !x.valid {
			panic(rpanic("reflect: call of reflect.Value.Set on zero Value"))
		}
		if !m.assignable(x.t, r.t) {
			panic(rpanic("reflect.Set: value of type %s is not assignable to type %s", types.TypeString(x.t, qualifier), types.TypeString(r.t, qualifier)))
		}
		m.it.store(r.p, m.asStatic(r.t, x))
		return nil, true
	case "Interface":
		need()
		if isIfaceT(r.t) {
			return r.load(), true
		}
		return Iface{r.t, r.load()}, true
	case "Call":
		in, _ := args[1].([]Value)
		outs := m.callRValue(r, in)
		return outs, true
	case "Pointer":
		need()
		// code pointer: every MakeFunc function shares reflect.makeFuncStub, an ordinary
		// function (or every closure of one literal) has its own
		switch f := r.load().(type) {
		case *MakeFuncObj:
			return int64(1), true
		case *Closure:
			if f == nil {
				return int64(0), true
			}
			return m.codePointer(f.fn), true
		}
		return int64(2), true
	case "Len":
		need()
		switch v := r.load().(type) {
		case []Value:
			return int64(len(v)), true
		case string:
			return int64(len(v)), true
		case Array:
			return int64(len(v)), true
		case *Map:
			if v == nil {
				return int64(0), true
			}
			return int64(v.n), true
		}
		panic(rpanic("reflect: call of reflect.Value.Len on %s Value", kindOf(r.t)))
	case "Index":
		need()
		i := int(m.it.concretizeIndex(args[1]))
		switch v := r.load().(type) {
		case []Value:
			if i < 0 || i >= len(v) {
				panic(rpanic("reflect: slice index out of range"))
			}
			et := r.t.Underlying().(*types.Slice).Elem()
			return RValue{valid: true, t: et, p: &v[i]}, true
		case Array:
			if i < 0 || i >= len(v) {
				panic(rpanic("reflect: array index out of range"))
			}
			et := r.t.Underlying().(*types.Array).Elem()
			return box(et, copyVal(v[i])), true
		}
		panic(rpanic("reflect: call of reflect.Value.Index on %s Value", kindOf(r.t)))
	case "Convert":
		need()
		t := m.typeArg(args[1])
		if m.assignable(r.t, t) {
			return box(t, m.asStatic(t, r)), true
		}
		panic(abortPath{"reflect.Value.Convert between different types"})
	case "Int":
		need()
		return r.load(), true
	case "Bool":
		need()
		return r.load(), true
	case "String":
		if !r.valid {
			return "<invalid Value>", true
		}
		if s, ok := r.load().(string); ok {
			return s, true
		}
		return "<" + types.TypeString(r.t, qualifier) + " Value>", true
	}
	return nil, false
}

// external implements functions that cannot (or should not) be interpreted
// from source. Returns (result, true) if handled.
func (m *RModel) external(fn *ssa.Function, name string, args []Value) (Value, bool) {
	if strings.HasPrefix(name, "(reflect.Value).") {
		if v, ok := m.valueMethod(name[len("(reflect.Value)."):], args); ok {
			return v, true
		}
		panic(abortPath{"reflect.Value method not modelled: " + name})
	}
	switch name {
	case "reflect.TypeOf":
		i, _ := args[0].(Iface)
		if i.t == nil {
			return Iface{}, true
		}
		return m.typeIface(i.t), true
	case "reflect.ValueOf":
		i, _ := args[0].(Iface)
		if i.t == nil {
			return RValue{}, true
		}
		return box(i.t, i.v), true
	case "reflect.New":
		t := m.typeArg(args[0])
		z := zero(t)
		return box(types.NewPointer(t), &z), true
	case "reflect.Zero":
		t := m.typeArg(args[0])
		return box(t, zero(t)), true
	case "reflect.PtrTo", "reflect.PointerTo":
		return m.typeIface(types.NewPointer(m.typeArg(args[0]))), true
	case "reflect.StructOf":
		fs, _ := args[0].([]Value)
		return m.typeIface(m.mkStruct(fs)), true
	case "reflect.FuncOf":
		in, _ := args[0].([]Value)
		out, _ := args[1].([]Value)
		return m.typeIface(m.mkFunc(in, out, args[2].(bool))), true
	case "reflect.MakeFunc":
		t := m.typeArg(args[0])
		sig, ok := t.Underlying().(*types.Signature)
		if !ok {
			panic(rpanic("reflect: call of MakeFunc with non-Func type"))
		}
		return box(t, &MakeFuncObj{t: sig, tt: t, fn: args[1]}), true
	case "reflect.Indirect":
		r, _ := args[0].(RValue)
		if r.valid {
			if _, ok := r.t.Underlying().(*types.Pointer); ok {
				v, _ := m.valueMethod("Elem", []Value{r})
				return v, true
			}
		}
		return r, true
	case "reflect.DeepEqual":
		return fmt.Sprint(m.toHost(args[0], 0)) == fmt.Sprint(m.toHost(args[1], 0)), true
	case "(reflect.Kind).String":
		return reflect.Kind(args[0].(int64)).String(), true
	case "(reflect.StructTag).Get":
		return reflect.StructTag(args[0].(string)).Get(args[1].(string)), true
	case "(reflect.StructTag).Lookup":
		v, ok := reflect.StructTag(args[0].(string)).Lookup(args[1].(string))
		return Tuple{v, ok}, true
	case "runtime.FuncForPC":
		pc, _ := args[0].(int64)
		name, ok := m.pcNames[pc]
		if pc == 1 {
			name, ok = "reflect.makeFuncStub", true
		}
		if !ok {
			return (*Value)(nil), true
		}
		cell := Value(&HostObj{kind: "rfunc", data: name})
		return &cell, true
	case "(*runtime.Func).Name":
		p, _ := args[0].(*Value)
		if p == nil {
			return "", true
		}
		if h, ok := (*p).(*HostObj); ok {
			return h.data.(string), true
		}
		return "", true
	case "github.com/hashicorp/go-hclog.L", "github.com/hashicorp/go-hclog.Default", "github.com/hashicorp/go-hclog.NewNullLogger":
		return Iface{types.Typ[types.UnsafePointer], &HostObj{kind: "hclog"}}, true
	}
	return m.extLib(fn, name, args)
}
