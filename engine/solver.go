package engine

import (
	"bufio"
	"fmt"
	"io"
	"os"
	"os/exec"
	"strings"
	"time"
)

// Solver is one SMT solver process driven over a pipe (SMT-LIB2, push/pop).
type Solver struct {
	kind    string
	cmd     *exec.Cmd
	in      *bufio.Writer
	inc     io.WriteCloser
	out     *bufio.Reader
	decl    map[string]bool
	depth   int
	log     *os.File
	Stats   SolverStats
	errSeen string // first "(error" line seen since the last Reset (makes the path inconclusive)
	timeout int    // ms per query

	pathCmds []string  // declarations and assertions of the current path (for the fallback solvers)
	alts     []*Solver // fallback solvers, started on the first unknown
	isAlt    bool
	Retries  int
	Rescued  int
	diffCtr  int
}

type SolverStats struct {
	Queries, Sat, Unsat, Unknown int
	Retries, Rescued             int
	Diffed, Disagree             int // queries re-asked of the other solvers (sampled) / verdicts that differed
	Dur                          time.Duration
	MaxQuery                     time.Duration
}

var forceUnknownEvery = func() int {
	n := 0
	fmt.Sscan(os.Getenv("GOSE_FORCE_UNKNOWN"), &n)
	return n
}()

// diffEvery: every diffEvery-th decided query is re-asked of the other two solvers
// (from a fresh state, the path's commands replayed) and the verdicts compared; a
// disagreement makes the path inconclusive. GOSE_DIFF_SOLVERS=N overrides (0 = off).
var diffEvery = func() int {
	n := 400
	if v := os.Getenv("GOSE_DIFF_SOLVERS"); v != "" {
		fmt.Sscan(v, &n)
	}
	return n
}()

func solverCommand(kind string, timeoutMs int) *exec.Cmd {
	switch kind {
	case "z3-new":
		return exec.Command("z3-new", "-in", fmt.Sprintf("-t:%d", timeoutMs))
	case "cvc5":
		return exec.Command("cvc5", "--incremental", "--lang=smt2", "--produce-models", fmt.Sprintf("--tlimit-per=%d", timeoutMs))
	default:
		return exec.Command("z3", "-in", fmt.Sprintf("-t:%d", timeoutMs))
	}
}

func NewSolver(kind string, timeoutMs int) (*Solver, error) {
	if kind == "" {
		kind = "z3"
	}
	cmd := solverCommand(kind, timeoutMs)
	in, err := cmd.StdinPipe()
	if err != nil {
		return nil, err
	}
	out, err := cmd.StdoutPipe()
	if err != nil {
		return nil, err
	}
	cmd.Stderr = os.Stderr
	if err := cmd.Start(); err != nil {
		return nil, err
	}
	s := &Solver{kind: kind, cmd: cmd, inc: in, in: bufio.NewWriterSize(in, 1<<16), out: bufio.NewReaderSize(out, 1<<16), decl: map[string]bool{}, timeout: timeoutMs}
	if p := os.Getenv("GOSE_SMTLOG"); p != "" {
		s.log, _ = os.Create(fmt.Sprintf("%s.%d", p, cmd.Process.Pid))
	}
	s.send("(set-option :produce-models true)")
	s.send("(set-logic ALL)")
	return s, nil
}

// record remembers a path-level command so that a fallback solver can be
// brought to the same state.
func (s *Solver) record(line string) {
	if !s.isAlt {
		s.pathCmds = append(s.pathCmds, line)
	}
}

// Retry re-asks "current path assertions + t" of fresh fallback solvers after
// the main solver answered unknown.
func (s *Solver) Retry(t *Term) string {
	if s.isAlt {
		return "unknown"
	}
	s.Retries++
	s.Stats.Retries++
	s.startAlts()
	for _, a := range s.alts {
		if r := s.askAlt(a, t); r == "sat" || r == "unsat" {
			s.Rescued++
			s.Stats.Rescued++
			return r
		}
	}
	return "unknown"
}

func (s *Solver) startAlts() {
	if s.alts == nil {
		for _, k := range []string{"z3-new", "cvc5", "z3"} {
			if k == s.kind {
				continue
			}
			a, err := NewSolver(k, s.timeout)
			if err == nil {
				a.isAlt = true
				s.alts = append(s.alts, a)
			}
		}
	}
}

func (s *Solver) askAlt(a *Solver, t *Term) string {
	a.send("(reset)")
	a.send("(set-option :produce-models true)")
	a.send("(set-logic ALL)")
	a.depth = 0
	a.errSeen = ""
	for _, c := range s.pathCmds {
		a.send(c)
	}
	if t != nil {
		// t's symbols are already declared in pathCmds (declare runs before Retry)
		a.send("(assert " + t.String() + ")")
	}
	return a.Check()
}

// diff re-asks a decided query of the other solvers (sampled) and compares.
func (s *Solver) diff(t *Term, verdict string) string {
	if s.isAlt || diffEvery <= 0 || (verdict != "sat" && verdict != "unsat") {
		return verdict
	}
	s.diffCtr++
	if s.diffCtr%diffEvery != 0 {
		return verdict
	}
	s.startAlts()
	s.Stats.Diffed++
	for _, a := range s.alts {
		r := s.askAlt(a, t)
		if (r == "sat" || r == "unsat") && r != verdict {
			s.Stats.Disagree++
			return fmt.Sprintf("error: solver disagreement: %s says %s, %s says %s", s.kind, verdict, a.kind, r)
		}
	}
	return verdict
}

func (s *Solver) send(line string) {
	if s.log != nil {
		fmt.Fprintln(s.log, line)
	}
	s.in.WriteString(line)
	s.in.WriteByte('\n')
}

// Reset drops all assertions and declarations of the previous path.
func (s *Solver) Reset() {
	for s.depth > 0 {
		s.send("(pop)")
		s.depth--
	}
	s.send("(push)")
	s.depth = 1
	s.decl = map[string]bool{}
	s.errSeen = ""
	s.pathCmds = s.pathCmds[:0]
}

func (s *Solver) declare(t *Term) {
	collectDecls(t, func(d *Term) {
		if d.op == "var" {
			if !s.decl[d.name] {
				s.decl[d.name] = true
				sort := "Int"
				if d.isB {
					sort = "Bool"
				}
				c := fmt.Sprintf("(declare-const %s %s)", d.name, sort)
				s.send(c)
				s.record(c)
			}
			return
		}
		key := fmt.Sprintf("%s/%d", d.name, len(d.args))
		if !s.decl[key] {
			s.decl[key] = true
			var c string
			if len(d.args) == 0 {
				c = fmt.Sprintf("(declare-const %s Int)", d.name)
			} else {
				c = fmt.Sprintf("(declare-fun %s (%s) Int)", d.name, strings.TrimSpace(strings.Repeat("Int ", len(d.args))))
			}
			s.send(c)
			s.record(c)
		}
	})
}

func (s *Solver) Assert(t *Term) {
	s.declare(t)
	c := "(assert " + t.String() + ")"
	s.send(c)
	s.record(c)
}

// Check returns "sat", "unsat", or something else (unknown/timeout/error).
func (s *Solver) Check() string {
	t0 := time.Now()
	s.send("(echo \"#chk\")")
	s.send("(check-sat)")
	s.in.Flush()
	verdict := "error"
	for {
		line, err := s.out.ReadString('\n')
		if err != nil {
			s.errSeen = "solver pipe closed: " + err.Error()
			return "error"
		}
		l := strings.TrimSpace(line)
		if l == "#chk" || l == "\"#chk\"" {
			break
		}
		if l != "" && s.errSeen == "" {
			s.errSeen = l
		}
	}
	line, err := s.out.ReadString('\n')
	if err == nil {
		verdict = strings.TrimSpace(line)
	}
	d := time.Since(t0)
	s.Stats.Dur += d
	if d > s.Stats.MaxQuery {
		s.Stats.MaxQuery = d
	}
	s.Stats.Queries++
	if s.errSeen != "" {
		s.Stats.Unknown++
		return "error: " + s.errSeen
	}
	if forceUnknownEvery > 0 && !s.isAlt && s.Stats.Queries%forceUnknownEvery == 0 {
		verdict = "unknown" // self-test of the fallback path (GOSE_FORCE_UNKNOWN)
	}
	switch verdict {
	case "sat":
		s.Stats.Sat++
	case "unsat":
		s.Stats.Unsat++
	default:
		s.Stats.Unknown++
	}
	return verdict
}

// CheckWith asks whether the current assertions plus t are satisfiable.
func (s *Solver) CheckWith(t *Term) string {
	s.declare(t)
	s.send("(push)")
	s.send("(assert " + t.String() + ")")
	r := s.Check()
	s.send("(pop)")
	if r != "sat" && r != "unsat" && !strings.HasPrefix(r, "error") {
		r = s.Retry(t)
	} else {
		r = s.diff(t, r)
	}
	return r
}

// CheckPath checks the current assertions alone (with the fallback).
func (s *Solver) CheckPath() string {
	r := s.Check()
	if r != "sat" && r != "unsat" && !strings.HasPrefix(r, "error") {
		r = s.Retry(nil)
	} else {
		r = s.diff(nil, r)
	}
	return r
}

// ModelWith returns the values of the named constants (and of the extra terms)
// in a model of the current assertions plus t (which must be satisfiable).
func (s *Solver) ModelWith(t *Term, names []string, extra []*Term) (map[string]string, []string, string) {
	if t != nil {
		s.declare(t)
	}
	s.send("(push)")
	if t != nil {
		s.send("(assert " + t.String() + ")")
	}
	r := s.Check()
	res := map[string]string{}
	var extraVals []string
	if r == "sat" {
		var decl []string
		for _, n := range names {
			if s.decl[n] {
				decl = append(decl, n)
			}
		}
		req := append([]string(nil), decl...)
		for _, e := range extra {
			req = append(req, e.String())
		}
		if len(req) > 0 {
			s.send("(get-value (" + strings.Join(req, " ") + "))")
			s.in.Flush()
			raw := s.readSexp()
			vals := parseValues(raw)
			if len(vals) == len(req) {
				for i, n := range decl {
					res[n] = vals[i]
				}
				extraVals = vals[len(decl):]
			} else {
				res["_model"] = "unparsed: " + raw
			}
		}
	}
	s.send("(pop)")
	return res, extraVals, r
}

func (s *Solver) readSexp() string {
	depth, started := 0, false
	var sb strings.Builder
	for {
		b, err := s.out.ReadByte()
		if err != nil {
			break
		}
		sb.WriteByte(b)
		if b == '(' {
			depth++
			started = true
		} else if b == ')' {
			depth--
		}
		if started && depth == 0 {
			s.out.ReadString('\n') // consume the rest of the line
			break
		}
	}
	return sb.String()
}

// parseValues parses "((a 1) (b (- 2)) ((f x) true))" into the value of each
// pair, in order.
func parseValues(raw string) []string {
	toks := tokenize(raw)
	var vals []string
	i := 0
	if i < len(toks) && toks[i] == "(" {
		i++
	}
	// each pair: ( key value ) where key and value are atoms or s-expressions
	readSexp := func() []string {
		if i >= len(toks) {
			return nil
		}
		if toks[i] != "(" {
			i++
			return toks[i-1 : i]
		}
		depth := 0
		st := i
		for i < len(toks) {
			if toks[i] == "(" {
				depth++
			} else if toks[i] == ")" {
				depth--
			}
			i++
			if depth == 0 {
				break
			}
		}
		return toks[st:i]
	}
	for i < len(toks) && toks[i] == "(" {
		i++        // open pair
		readSexp() // key
		v := readSexp()
		var val string
		if len(v) == 1 {
			val = v[0]
		} else {
			var parts []string
			for _, x := range v {
				if x != "(" && x != ")" {
					parts = append(parts, x)
				}
			}
			if len(parts) == 2 && parts[0] == "-" {
				val = "-" + parts[1]
			} else {
				val = strings.Join(parts, " ")
			}
		}
		vals = append(vals, val)
		if i < len(toks) && toks[i] == ")" {
			i++
		}
	}
	return vals
}

func tokenize(s string) []string {
	var toks []string
	cur := ""
	flush := func() {
		if cur != "" {
			toks = append(toks, cur)
			cur = ""
		}
	}
	for _, r := range s {
		switch r {
		case '(', ')':
			flush()
			toks = append(toks, string(r))
		case ' ', '\n', '\t', '\r':
			flush()
		default:
			cur += string(r)
		}
	}
	flush()
	return toks
}

func (s *Solver) Close() {
	for _, a := range s.alts {
		a.Close()
	}
	s.in.Flush()
	s.inc.Close()
	s.cmd.Wait()
	if s.log != nil {
		s.log.Close()
	}
}

func solverVersion(kind string) string {
	var out []byte
	switch kind {
	case "cvc5":
		out, _ = exec.Command("cvc5", "--version").Output()
	case "z3-new":
		out, _ = exec.Command("z3-new", "--version").Output()
	default:
		out, _ = exec.Command("z3", "--version").Output()
	}
	l := strings.SplitN(string(out), "\n", 2)[0]
	return strings.TrimSpace(l)
}
