//go:build verif

package argmapper

import (
	"errors"
	"fmt"
	"reflect"
)

// C06 — calls always return: no panic, crash or unbounded recursion on
// well-formed use; malformed options are ignored or reported as errors.

// hGuard runs f and reports a panic as a C06 violation.
func hGuard(what string, classify func(msg string) string, f func()) (panicked bool) {
	defer func() {
		if p := recover(); p != nil {
			panicked = true
			msg := fmt.Sprint(p)
			vnNoteAppend(" | " + what + " panicked: " + hFirstLine(msg))
			vnAssertK(false, "C06."+what+"-does-not-panic", classify(msg))
		}
	}()
	f()
	return false
}

func hFirstLine(s string) string {
	for i := 0; i < len(s); i++ {
		if s[i] == '\n' {
			return s[:i]
		}
	}
	return s
}

func hNoClass(string) string { return "" }

// HarnessC06 — template worlds: Call, Redefine and Convert must return.
func HarnessC06(fam, nT, nV, convCode, form, sv, mode int) {
	hSchedVector(sv)
	w := hTemplate(fam, nT, nV, convCode, form, mode&^1)
	vnNote(w.String())
	args, ok := w.hBuildAll()
	if !ok {
		vnAssume(false)
	}
	vnOnDivergence("C06.call-terminates", w.classifyDivergence())
	hGuard("Call", w.classifyPanic, func() {
		r := w.Funcs[0].Call(args...)
		if err := r.Err(); err != nil {
			_ = err.Error() // rendering the error must not panic either
		}
	})
	vnCover("C06.call-returned")
	hGuard("Redefine", w.classifyPanic, func() {
		f, err := w.Funcs[0].Redefine(args...)
		if err != nil {
			_ = err.Error()
		} else if f != nil {
			_ = f.Input().Values()
		}
	})
	vnCover("C06.redefine-returned")
	// Redefine with a type filter on the inputs (symbolic type), which routes the
	// planning through the converters
	ft := []int{hTP0, hTP1, hTI}[hPick("filterType", 3)]
	hGuard("Redefine", w.classifyPanic, func() {
		f, err := w.Funcs[0].Redefine(append(append([]Arg{}, args...), FilterInput(FilterType(hType(ft))))...)
		if err != nil {
			_ = err.Error()
		} else if f != nil {
			_ = f.Input().Values()
		}
	})
	if len(w.Target.In) > 0 {
		hGuard("Convert", w.classifyPanic, func() {
			_, err := Convert(hType(w.Target.In[0].T), args...)
			if err != nil {
				_ = err.Error()
			}
		})
		vnCover("C06.convert-returned")
	}
}

func (w *hWorld) classifyPanic(msg string) string { return "" }

// HarnessC06Pos — positional functions whose parameter lists repeat a type.
//
//	shape 0: target func(T,T)            with Typed(T) supplied
//	shape 1: target func(T,T,U)          with Typed(T), Typed(U)
//	shape 2: target func(U), converter func(T,T) U, Typed(T)
//	shape 3: target func(T,T) (T,T)      result list repeats a type too
func HarnessC06Pos(shape int) {
	hSchedVector(0)
	t0, t1 := hType(hTP0), hType(hTP1)
	mk := func(id int, ins, outs []reflect.Type) *Func {
		ft := reflect.FuncOf(ins, outs, false)
		fn := reflect.MakeFunc(ft, func(args []reflect.Value) []reflect.Value {
			res := make([]reflect.Value, len(outs))
			for i, o := range outs {
				res[i] = reflect.Zero(o)
			}
			return res
		})
		f, err := NewFunc(fn.Interface())
		if err != nil {
			return nil // rejecting the signature with an error is a normal return
		}
		return f
	}
	vnNote(fmt.Sprintf("positional shape %d", shape))
	x, y := vnPayload("x"), vnPayload("y")
	hGuard("Call", hClassPositional, func() {
		var target *Func
		var args []Arg
		switch shape {
		case 0:
			target = mk(0, []reflect.Type{t0, t0}, nil)
			args = []Arg{Typed(hP0{x})}
		case 1:
			target = mk(0, []reflect.Type{t0, t0, t1}, nil)
			args = []Arg{Typed(hP0{x}), Typed(hP1{y})}
		case 2:
			target = mk(0, []reflect.Type{t1}, nil)
			conv := mk(1, []reflect.Type{t0, t0}, []reflect.Type{t1})
			args = []Arg{Typed(hP0{x})}
			if conv != nil {
				args = append(args, ConverterFunc(conv))
			}
		case 3:
			target = mk(0, []reflect.Type{t0, t0}, []reflect.Type{t0, t0})
			args = []Arg{Typed(hP0{x})}
		}
		if target == nil {
			vnCover("C06.positional-rejected-at-construction")
			return
		}
		r := target.Call(args...)
		if err := r.Err(); err != nil {
			_ = err.Error()
		}
		for i := 0; i < r.Len(); i++ {
			_ = r.Out(i)
		}
		if f, err := target.Redefine(args...); err == nil && f != nil {
			_ = f.Input().Values()
		}
		_ = target.Input().Signature()
		_ = target.Output().SignatureValues()
	})
	vnCover("C06.positional-checked")
}

func hClassPositional(msg string) string { return "" }

// HarnessC06Malformed — malformed options are ignored or reported as errors.
func HarnessC06Malformed(kind int) {
	hSchedVector(0)
	x := vnPayload("x")
	target, err := NewFunc(func(a hP0) hP0 { return a })
	vnAssert(err == nil, "C06.setup")
	if err != nil {
		return
	}
	vnNote(fmt.Sprintf("malformed option kind %d", kind))
	genErr := errors.New("generator failed")
	hGuard("malformed-option", hClassMalformed, func() {
		var r Result
		switch kind {
		case 0: // nil option
			r = target.Call(Typed(hP0{x}), nil)
			vnAssert(r.Err() != nil, "C06.nil-option-yields-error")
		case 1: // nil values are ignored
			r = target.Call(Named("x", nil), Typed(nil), NamedSubtype("y", nil, "s"), TypedSubtype(nil, "s"), Typed(hP0{x}))
			vnAssert(r.Err() == nil, "C06.nil-values-ignored")
		case 2: // non-function converter
			r = target.Call(Typed(hP0{x}), Converter(42))
			vnAssert(r.Err() != nil, "C06.non-function-converter-reported")
		case 3: // nil converter
			r = target.Call(Typed(hP0{x}), Converter(nil))
			vnAssert(r.Err() != nil, "C06.nil-converter-reported")
		case 4: // nil *Func converter is ignored
			r = target.Call(Typed(hP0{x}), ConverterFunc(nil))
			vnAssert(r.Err() == nil, "C06.nil-func-converter-ignored")
		case 5: // generator reporting an error
			r = target.Call(Typed(hP0{x}), ConverterGen(func(v Value) (*Func, error) { return nil, genErr }))
			_ = r.Err()
		case 6: // NewFunc(nil)
			_, err := NewFunc(nil)
			vnAssert(err != nil, "C06.NewFunc-nil-reported")
		case 7: // NewFunc(non-function)
			_, err := NewFunc(42)
			vnAssert(err != nil, "C06.NewFunc-non-function-reported")
		case 8: // the same through Redefine and Convert
			_, err := target.Redefine(Typed(hP0{x}), nil)
			vnAssert(err != nil, "C06.Redefine-nil-option-yields-error")
			_, err = Convert(hType(hTP0), Typed(hP0{x}), nil)
			vnAssert(err != nil, "C06.Convert-nil-option-yields-error")
		case 9: // generator returning nil is "no converter"
			r = target.Call(Typed(hP0{x}), ConverterGen(func(v Value) (*Func, error) { return nil, nil }))
			vnAssert(r.Err() == nil, "C06.nil-generator-result-ignored")
		case 10: // generator error through Redefine
			_, _ = target.Redefine(Typed(hP0{x}), ConverterGen(func(v Value) (*Func, error) { return nil, genErr }))
		case 11: // BuildFunc with nil sets
			f, err := BuildFunc(nil, nil, func(in, out *ValueSet) error { return nil })
			vnAssert(err == nil, "C06.BuildFunc-nil-sets")
			if f != nil {
				r = f.Call()
				vnAssert(r.Err() == nil, "C06.BuildFunc-nil-sets-call")
			}
		}
	})
	vnCover("C06.malformed-checked")
}

func hClassMalformed(msg string) string { return "" }

// HarnessC06Gen — converter generators that do produce converters.
func HarnessC06Gen(fam, nV, sv int) {
	hSchedVector(sv)
	w := hTemplate(fam, 1, nV, 0, hFormBuilt, 0)
	// the generator offers, for every value vertex of a symbolic type, a converter to the target type
	from := hSymLabel(fam, "gfrom", true)
	to := w.Target.In[0]
	c := hFuncSpec{ID: 1, Form: hFormBuilt, In: []hLabel{{T: from.T}}, Out: []hLabel{{Name: to.Name, T: to.T, Sub: to.Sub}}}
	w.Convs = append(w.Convs, c)
	vnNote(w.String() + " (converter generated for values of type " + hTypeNames[from.T] + ")")
	args, ok := w.hBuildAll()
	if !ok {
		vnAssume(false)
	}
	// replace the converter option by a generator
	args = args[:len(w.Vals)]
	cf := w.Funcs[1]
	args = append(args, ConverterGen(func(v Value) (*Func, error) {
		if v.Type == hType(from.T) {
			return cf, nil
		}
		return nil, nil
	}))
	vnOnDivergence("C06.call-terminates", "")
	hGuard("Call", hNoClass, func() {
		r := w.Funcs[0].Call(args...)
		_ = r.Err()
	})
	hGuard("Redefine", hNoClass, func() {
		_, _ = w.Funcs[0].Redefine(args...)
	})
	vnCover("C06.generator-checked")
}
