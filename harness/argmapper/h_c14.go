//go:build verif

package argmapper

import (
	"fmt"
	"reflect"
	"strings"
)

// C14 — introspection mirrors the Go signature exactly.

type hFieldSpec struct {
	Field    string // Go field name
	TagName  string // name given by the tag ("" = none)
	TypeOnly bool
	Sub      string
	Unknown  bool // an unknown option in the tag
	EmptyTag bool // `argmapper:""` instead of no tag at all
	T        int
}

func (f hFieldSpec) tag() string {
	var opts []string
	if f.TypeOnly {
		opts = append(opts, "typeOnly")
	}
	if f.Sub != "" {
		opts = append(opts, "subtype="+f.Sub)
	}
	if f.Unknown {
		opts = append(opts, "future=1")
	}
	if f.TagName == "" && len(opts) == 0 {
		if f.EmptyTag {
			return `argmapper:""`
		}
		return ""
	}
	return `argmapper:"` + strings.Join(append([]string{f.TagName}, opts...), ",") + `"`
}

// expected Value of the field
func (f hFieldSpec) want() hLabel {
	name := f.Field
	if f.TagName != "" {
		name = f.TagName
	}
	name = strings.ToLower(name)
	if f.TypeOnly {
		name = ""
	}
	return hLabel{Name: name, T: f.T, Sub: f.Sub}
}

var hFieldNames = []string{"A", "Bb", "CCC"}
var hTagNames = []string{"", "x", "Yy", "ZED"}

func hSymField(tag string, i int) hFieldSpec {
	f := hFieldSpec{Field: hFieldNames[i]}
	f.TagName = hTagNames[vnChoice(tag+".tagname", len(hTagNames), i)]
	f.TypeOnly = vnBool(tag+".typeonly", i)
	f.Sub = []string{"", "s", "Sx", "k=v"}[vnChoice(tag+".sub", 4, i)]
	f.Unknown = vnBool(tag+".unknown", i)
	f.EmptyTag = vnBool(tag+".emptytag", i)
	f.T = []int{hTP0, hTP1, hTI}[vnChoice(tag+".type", 3, i)]
	return f
}

func hFieldStruct(fs []hFieldSpec, marker bool) reflect.Type {
	var sf []reflect.StructField
	if marker {
		sf = append(sf, reflect.StructField{Name: "Struct", Type: structMarkerType, Anonymous: true})
	}
	for _, f := range fs {
		sf = append(sf, reflect.StructField{Name: f.Field, Type: hType(f.T), Tag: reflect.StructTag(f.tag())})
	}
	return reflect.StructOf(sf)
}

func hCheckSet(vs *ValueSet, want []hLabel, tag string) {
	got := vs.Values()
	vnAssert(len(got) == len(want), tag+".values-count")
	if len(got) != len(want) {
		return
	}
	for i, w := range want {
		g := got[i]
		vnAssert(g.Name == w.Name, tag+".value-name")
		vnAssert(g.Type == hType(w.T), tag+".value-type")
		vnAssert(g.Subtype == w.Sub, tag+".value-subtype")
		if w.Name != "" {
			vnAssert(g.Kind() == ValueNamed, tag+".value-kind-named")
			n := vs.Named(w.Name)
			vnAssert(n != nil && n.Name == w.Name && n.Type == hType(w.T) && n.Subtype == w.Sub, tag+".Named-finds-it")
		} else {
			vnAssert(g.Kind() == ValueTyped, tag+".value-kind-typed")
			t := vs.Typed(hType(w.T))
			vnAssert(t != nil && t.Type == hType(w.T), tag+".Typed-finds-it")
		}
		ts := vs.TypedSubtype(hType(w.T), w.Sub)
		vnAssert(ts != nil && ts.Type == hType(w.T) && ts.Subtype == w.Sub, tag+".TypedSubtype-finds-it")
	}
}

// distinct keys: names among named, types among typed, and (type,subtype) overall
func hWantsDistinct(ws []hLabel) bool {
	for i := range ws {
		for j := i + 1; j < len(ws); j++ {
			if ws[i].Name != "" && ws[i].Name == ws[j].Name {
				return false
			}
			if ws[i].Name == "" && ws[j].Name == "" && ws[i].T == ws[j].T {
				return false
			}
			if ws[i].T == ws[j].T && ws[i].Sub == ws[j].Sub {
				return false
			}
		}
	}
	return true
}

// HarnessC14 — function types assembled from a spec.
//
//	inForm / outForm: 0 positional, 1 marker struct, 2 *marker struct, 3 **marker struct (rejected),
//	                  4 marker struct mixed with another parameter (rejected), 5 empty list
//	k: number of fields / positional entries (<=3)
//	errPos: 0 no error result, 1 final error, 2 error in first position (an ordinary output)
func HarnessC14(inForm, outForm, k, errPos int) {
	hOrderSites(0)
	mkList := func(form int, tag string) (types []reflect.Type, want []hLabel, reject bool) {
		switch form {
		case 5:
			return nil, nil, false
		case 0:
			used := map[int]bool{}
			for i := 0; i < k; i++ {
				t := []int{hTP0, hTP1, hTI}[vnChoice(tag+".ptype", 3, i)]
				if used[t] {
					vnAssume(false)
				}
				used[t] = true
				types = append(types, hType(t))
				want = append(want, hLabel{T: t})
			}
			return types, want, false
		}
		var fs []hFieldSpec
		for i := 0; i < k; i++ {
			f := hSymField(tag, i)
			fs = append(fs, f)
			want = append(want, f.want())
		}
		if !hWantsDistinct(want) {
			vnAssume(false)
		}
		st := hFieldStruct(fs, true)
		switch form {
		case 1:
			return []reflect.Type{st}, want, false
		case 2:
			return []reflect.Type{reflect.PtrTo(st)}, want, false
		case 3:
			return []reflect.Type{reflect.PtrTo(reflect.PtrTo(st))}, want, true
		default: // 4: mixed
			return []reflect.Type{st, hType(hTP2)}, want, true
		}
	}
	ins, wantIn, rejIn := mkList(inForm, "in")
	outs, wantOut, rejOut := mkList(outForm, "out")
	switch errPos {
	case 1:
		outs = append(outs, errType)
	case 2:
		if outForm != 0 && outForm != 5 {
			vnAssume(false) // a struct result next to another result is the "mixed" case
		}
		outs = append([]reflect.Type{errType}, outs...)
		wantOut = append([]hLabel{{T: -2}}, wantOut...)
	case 3:
		// two trailing errors: only the final one is the error slot, the other is an output
		if outForm != 0 && outForm != 5 {
			vnAssume(false)
		}
		outs = append(outs, errType, errType)
		wantOut = append(wantOut, hLabel{T: -2})
	}
	vnNote(fmt.Sprintf("in=%v out=%v (forms %d/%d, errPos %d)", ins, outs, inForm, outForm, errPos))
	ft := reflect.FuncOf(ins, outs, false)
	fn := reflect.MakeFunc(ft, func(args []reflect.Value) []reflect.Value {
		res := make([]reflect.Value, len(outs))
		for i, o := range outs {
			res[i] = reflect.Zero(o)
		}
		return res
	})
	f, err := NewFunc(fn.Interface())
	if rejIn || rejOut {
		vnAssert(err != nil, "C14.unsupported-signature-rejected")
		vnCover("C14.rejection-checked")
		return
	}
	vnAssert(err == nil, "C14.supported-signature-accepted")
	if err != nil {
		return
	}
	// error in first position is an ordinary type-only output of type error
	check := func(vs *ValueSet, want []hLabel, tag string) {
		got := vs.Values()
		if len(want) > 0 && want[0].T == -2 {
			vnAssert(len(got) == len(want), tag+".values-count")
			if len(got) == len(want) {
				vnAssert(got[0].Type == errType && got[0].Name == "", tag+".leading-error-is-an-output")
			}
			return
		}
		if len(want) > 0 && want[len(want)-1].T == -2 {
			vnAssert(len(got) == len(want), tag+".values-count")
			if len(got) == len(want) {
				last := got[len(got)-1]
				vnAssert(last.Type == errType && last.Name == "", tag+".non-final-error-is-an-output")
				for i, w := range want[:len(want)-1] {
					vnAssert(got[i].Name == w.Name && got[i].Type == hType(w.T) && got[i].Subtype == w.Sub, tag+".outputs-before-the-errors")
				}
			}
			return
		}
		hCheckSet(vs, want, tag)
	}
	check(f.Input(), wantIn, "C14.input")
	check(f.Output(), wantOut, "C14.output")
	vnCover("C14.sets-checked")
	if inForm == 2 || outForm == 2 {
		vnCover("C14.pointer-struct-form")
	}
}

// static catalogue: real Go signatures (unexported fields, embedded marker at another
// position, non-function values) that reflect.StructOf cannot express
type hCatIn struct {
	Struct
	A      hP0
	hidden hP1
	B      hP1 `argmapper:"renamed"`
	C      hP2 `argmapper:",typeOnly"`
}

type hCatOut struct {
	D hP0 `argmapper:",subtype=s"`
	Struct
	e hP1
}

type hPlain struct{ X hP0 } // no marker: an ordinary type-only value

// the marker only reaches hNested through an embedded marker struct: hNested itself is
// NOT a marker struct (an ordinary type-only value)
type hCommon struct {
	Struct
	A hP0
}

type hNested struct {
	hCommon
	B hP1
}

// an embedded exported non-marker type is an ordinary named field, called after its type
type HBase struct{ N int }

type hWithEmbedded struct {
	Struct
	HBase
	A hP0
}

func HarnessC14Static(kind int) {
	hOrderSites(0)
	vnNote(fmt.Sprintf("static catalogue entry %d", kind))
	switch kind {
	case 0:
		f, err := NewFunc(func(in hCatIn) (hCatOut, error) { _ = in.hidden; return hCatOut{e: hP1{}}, nil })
		vnAssert(err == nil, "C14.static-accepted")
		if err == nil {
			hCheckSet(f.Input(), []hLabel{{Name: "a", T: hTP0}, {Name: "renamed", T: hTP1}, {T: hTP2}}, "C14.static-input")
			hCheckSet(f.Output(), []hLabel{{Name: "d", T: hTP0, Sub: "s"}}, "C14.static-output")
		}
	case 1:
		f, err := NewFunc(func(in *hCatIn) *hCatOut { return nil })
		vnAssert(err == nil, "C14.static-accepted")
		if err == nil {
			hCheckSet(f.Input(), []hLabel{{Name: "a", T: hTP0}, {Name: "renamed", T: hTP1}, {T: hTP2}}, "C14.static-ptr-input")
			hCheckSet(f.Output(), []hLabel{{Name: "d", T: hTP0, Sub: "s"}}, "C14.static-ptr-output")
		}
	case 2:
		f, err := NewFunc(func(p hPlain, q *hPlain) {})
		vnAssert(err == nil, "C14.static-accepted")
		if err == nil {
			vs := f.Input().Values()
			vnAssert(len(vs) == 2, "C14.plain-struct-count")
			if len(vs) == 2 {
				vnAssert(vs[0].Name == "" && vs[0].Type == reflect.TypeOf(hPlain{}), "C14.plain-struct-is-type-only")
				vnAssert(vs[1].Name == "" && vs[1].Type == reflect.TypeOf(&hPlain{}), "C14.plain-struct-pointer-is-type-only")
			}
			vnAssert(len(f.Output().Values()) == 0, "C14.no-outputs")
		}
	case 3:
		_, err := NewFunc(func(in hCatIn, extra hP0) {})
		vnAssert(err != nil, "C14.mixed-rejected")
		_, err = NewFunc(func(in **hCatIn) {})
		vnAssert(err != nil, "C14.double-pointer-rejected")
		_, err = NewFunc(42)
		vnAssert(err != nil, "C14.non-function-rejected")
		_, err = NewFunc("f")
		vnAssert(err != nil, "C14.non-function-rejected")
		_, err = NewFunc(nil)
		vnAssert(err != nil, "C14.nil-rejected")
		_, err = NewFunc(func() (hCatOut, hP0) { return hCatOut{}, hP0{} })
		vnAssert(err != nil, "C14.mixed-results-rejected")
		_, err = NewFunc(func(x hP0, in *hCatIn) {})
		vnAssert(err != nil, "C14.mixed-with-pointer-struct-rejected")
		_, err = NewFunc(func(in *hCatIn, in2 *hCatIn) {})
		vnAssert(err != nil, "C14.two-pointer-structs-rejected")
		_, err = NewFunc(func() (hP0, *hCatOut, error) { return hP0{}, nil, nil })
		vnAssert(err != nil, "C14.mixed-pointer-struct-results-rejected")
	case 5:
		f, err := NewFunc(func(p hNested, q *hNested) hNested { return p })
		vnAssert(err == nil, "C14.static-accepted")
		if err == nil {
			vs := f.Input().Values()
			vnAssert(len(vs) == 2, "C14.nested-marker-count")
			if len(vs) == 2 {
				vnAssert(vs[0].Name == "" && vs[0].Type == reflect.TypeOf(hNested{}), "C14.promoted-marker-does-not-make-a-marker-struct")
				vnAssert(vs[1].Name == "" && vs[1].Type == reflect.TypeOf(&hNested{}), "C14.promoted-marker-pointer-is-type-only")
			}
			os := f.Output().Values()
			vnAssert(len(os) == 1 && os[0].Name == "" && os[0].Type == reflect.TypeOf(hNested{}), "C14.promoted-marker-result-is-type-only")
		}
		g, err := NewFunc(func(in hWithEmbedded) {})
		vnAssert(err == nil, "C14.static-accepted")
		if err == nil {
			vs := g.Input().Values()
			vnAssert(len(vs) == 2, "C14.embedded-field-count")
			if len(vs) == 2 {
				vnAssert(vs[0].Name == "hbase" && vs[0].Type == reflect.TypeOf(HBase{}), "C14.embedded-exported-field-is-a-named-value")
				vnAssert(vs[1].Name == "a" && vs[1].Type == hType(hTP0), "C14.field-after-embedded")
			}
		}
	case 4:
		f, err := NewFunc(func() error { return nil })
		vnAssert(err == nil, "C14.static-accepted")
		if err == nil {
			vnAssert(len(f.Output().Values()) == 0, "C14.sole-error-result-excluded")
			vnAssert(len(f.Input().Values()) == 0, "C14.no-inputs")
		}
		g, err := NewFunc(func(a hP0, b hP1, c hI) (hP1, hP0, error) { return hP1{}, hP0{}, nil })
		vnAssert(err == nil, "C14.static-accepted")
		if err == nil {
			hCheckSet(g.Input(), []hLabel{{T: hTP0}, {T: hTP1}, {T: hTI}}, "C14.static-positional-input")
			hCheckSet(g.Output(), []hLabel{{T: hTP1}, {T: hTP0}}, "C14.static-positional-output")
		}
	}
	vnCover("C14.static-checked")
}
