//go:build verif

package argmapper

import (
	"fmt"
	"reflect"
)

// HarnessC10 — Convert agrees with calling an identity function of the target type.
//
// The world's target has one type-only parameter of type T (symbolic, including
// the interface type). In ONE path: Convert(T, opts) and
// NewFunc(func(T) T).Call(opts) on the same options.
func HarnessC10(fam, nV, convCode, form, sv int) {
	hOrderSites(sv)
	w := hTemplate(fam, 1, nV, convCode, form, 0)
	if w.Target.In[0].Name != "" || w.Target.In[0].Sub != "" {
		vnAssume(false) // Convert's target is a plain type
	}
	T := w.Target.In[0].T
	vnNote(w.String())
	args, ok := w.hBuildAll()
	if !ok {
		vnAssume(false)
	}
	vnOnDivergence("", "")
	// identity function of the target type
	tt := hType(T)
	idf := reflect.MakeFunc(reflect.FuncOf([]reflect.Type{tt}, []reflect.Type{tt}, false), func(a []reflect.Value) []reflect.Value { return a })
	f, err := NewFunc(idf.Interface())
	vnAssert(err == nil, "C10.identity-function-accepted")
	if err != nil {
		return
	}
	var cv interface{}
	var cerr error
	if hGuardPlain(func() { cv, cerr = Convert(tt, args...) }) {
		return // C06's subject
	}
	log1 := w.Log
	w.Log = nil
	vnScheduleRestart() // the identity call runs under the same iteration orders
	var r Result
	if hGuardPlain(func() { r = f.Call(args...) }) {
		return
	}
	log2 := w.Log
	vnCover("C10.both-returned")
	vnAssert((cerr == nil) == (r.Err() == nil), "C10.convert-succeeds-exactly-when-the-identity-call-does")
	// "it obeys C01-C05": a target type derivable on a well-behaved converter set converts
	single := true
	for _, c := range w.Convs {
		if len(c.In) > 1 {
			single = false
		}
	}
	der, fired := hDerivable(w, hPromised)
	allFire := true
	for _, f := range fired {
		if !f {
			allFire = false
		}
	}
	if der[0] && (single || (hAcyclic(w, hCompat) && allFire)) {
		vnAssert(cerr == nil, "C10.derivable-target-type-converts")
		vnCover("C10.completeness-checked")
	}
	if cerr != nil {
		vnAssert(cv == nil, "C10.error-means-nil-value")
		vnCover("C10.failure-checked")
		return
	}
	if r.Err() != nil {
		return
	}
	vnAssert(r.Len() == 1, "C10.identity-call-has-one-result")
	if r.Len() != 1 {
		return
	}
	ct, cid := hUnpack(cv)
	it, iid := hUnpack(r.Out(0))
	vnAssert(ct >= 0 && hAssignable(ct, T), "C10.value-assignable-to-target-type")
	vnAssert(ct == it, "C10.same-dynamic-type-as-the-identity-call")
	vnAssert(cid == iid, "C10.same-value-as-the-identity-call-would-inject")
	// both executed the same converters
	vnAssert(len(log1) == len(log2), "C10.same-converters-executed")
	// the value obeys C01: it is a compatible source
	okSrc := false
	srcs := append([]hVal{}, w.Vals...)
	for _, ex := range log1 {
		srcs = append(srcs, ex.Out...)
	}
	for _, s := range srcs {
		if hCompat(s.L, hLabel{T: T}) && s.L.T == ct {
			okSrc = vnOr(okSrc, cid == s.ID)
		}
	}
	vnAssert(okSrc, "C10.value-is-a-compatible-source")
	if len(log1) > 0 {
		vnCover("C10.conversion-used")
	}
	vnCover("C10.success-checked")
	_ = fmt.Sprint
}

// HarnessC10Nil — nilable target types: Convert must return exactly the value the
// identity call injects, including a typed nil pointer / nil slice (which is a value,
// not a failure).
//
//	kind 0: *hP0 supplied directly (nil-ness symbolic)   1: *hP0 produced by a converter
//	     2: []hP0 supplied directly (nil-ness symbolic)  3: []hP0 produced by a converter
func HarnessC10Nil(kind int) {
	hOrderSites(0)
	isNil := vnBool("isNil")
	x := vnPayload("x")
	var args []Arg
	var tt reflect.Type
	mkPtr := func() *hP0 {
		if isNil {
			return nil
		}
		return &hP0{x}
	}
	mkSlice := func() []hP0 {
		if isNil {
			return nil
		}
		return []hP0{{x}}
	}
	switch kind {
	case 0:
		tt = reflect.TypeOf((*hP0)(nil))
		args = []Arg{Typed(mkPtr())}
	case 1:
		tt = reflect.TypeOf((*hP0)(nil))
		args = []Arg{Typed(hP1{x}), Converter(func(hP1) *hP0 { return mkPtr() })}
	case 2:
		tt = reflect.TypeOf([]hP0(nil))
		args = []Arg{Typed(mkSlice())}
	default:
		tt = reflect.TypeOf([]hP0(nil))
		args = []Arg{Typed(hP1{x}), Converter(func(hP1) ([]hP0, error) { return mkSlice(), nil })}
	}
	vnNote(fmt.Sprintf("nilable target kind %d isNil=%v", kind, isNil))
	idf := reflect.MakeFunc(reflect.FuncOf([]reflect.Type{tt}, []reflect.Type{tt}, false), func(a []reflect.Value) []reflect.Value { return a })
	f, err := NewFunc(idf.Interface())
	vnAssert(err == nil, "C10.identity-function-accepted")
	if err != nil {
		return
	}
	cv, cerr := Convert(tt, args...)
	r := f.Call(args...)
	vnAssert((cerr == nil) == (r.Err() == nil), "C10.nil.convert-succeeds-exactly-when-the-identity-call-does")
	vnAssert(cerr == nil, "C10.nil.conversion-succeeds")
	if cerr != nil || r.Err() != nil || r.Len() != 1 {
		return
	}
	iv := r.Out(0)
	vnAssert(cv != nil, "C10.nil.a-typed-nil-is-a-value-not-a-failure")
	vnAssert(reflect.TypeOf(cv) == tt, "C10.nil.value-has-the-target-type")
	vnAssert(reflect.TypeOf(iv) == tt, "C10.nil.identity-value-has-the-target-type")
	if kind <= 1 {
		cp, ok1 := cv.(*hP0)
		ip, ok2 := iv.(*hP0)
		vnAssert(ok1 && ok2, "C10.nil.pointer-values")
		if ok1 && ok2 {
			vnAssert((cp == nil) == (ip == nil), "C10.nil.same-nilness-as-the-identity-call")
			vnAssert((cp == nil) == isNil, "C10.nil.nilness-preserved")
			if cp != nil && ip != nil {
				vnAssert(cp.ID == ip.ID && cp.ID == x, "C10.nil.same-pointee")
			}
		}
	} else {
		cs, ok1 := cv.([]hP0)
		is, ok2 := iv.([]hP0)
		vnAssert(ok1 && ok2, "C10.nil.slice-values")
		if ok1 && ok2 {
			vnAssert((cs == nil) == (is == nil), "C10.nil.same-nilness-as-the-identity-call")
			vnAssert(len(cs) == len(is), "C10.nil.same-length")
		}
	}
	vnCover("C10.nilable-checked")
}

// two distinct function-local types that print identically
func hLocalTypeA(id int) (reflect.Type, interface{}) {
	type T struct{ ID int }
	return reflect.TypeOf(T{}), T{id}
}

func hLocalTypeB(id int) (reflect.Type, interface{}) {
	type T struct{ ID, Other int }
	return reflect.TypeOf(T{}), T{id, id}
}

// HarnessC10Seq — a history of Convert calls: each Convert agrees with its own
// identity call whatever was converted before (no state may leak between calls),
// including between distinct types whose names coincide.
func HarnessC10Seq(n int) {
	hOrderSites(0)
	x := vnPayload("x")
	desc := ""
	for k := 0; k < n; k++ {
		var tt reflect.Type
		var v interface{}
		switch hPick("which", 4, k) {
		case 0:
			tt, v = hLocalTypeA(x)
			desc += "localA "
		case 1:
			tt, v = hLocalTypeB(x)
			desc += "localB "
		case 2:
			tt, v = hType(hTP0), hMk(hTP0, x)
			desc += "P0 "
		default:
			tt, v = hType(hTI), hMk(hTP2, x)
			desc += "I "
		}
		vnNote("Convert history: " + desc)
		idf := reflect.MakeFunc(reflect.FuncOf([]reflect.Type{tt}, []reflect.Type{tt}, false), func(a []reflect.Value) []reflect.Value { return a })
		f, err := NewFunc(idf.Interface())
		if err != nil {
			vnAssert(false, "C10.seq.identity-function-accepted")
			return
		}
		var cv interface{}
		var cerr error
		if hGuardPlain(func() { cv, cerr = Convert(tt, Typed(v)) }) {
			vnAssert(false, "C10.seq.convert-does-not-panic")
			return
		}
		r := f.Call(Typed(v))
		vnAssert((cerr == nil) == (r.Err() == nil), "C10.seq.convert-succeeds-exactly-when-the-identity-call-does")
		vnAssert(cerr == nil, "C10.seq.direct-value-converts")
		if cerr == nil && r.Err() == nil && r.Len() == 1 {
			vnAssert(reflect.TypeOf(cv) == reflect.TypeOf(r.Out(0)), "C10.seq.same-dynamic-type")
			vnAssert(reflect.TypeOf(cv).AssignableTo(tt), "C10.seq.assignable-to-target")
		}
	}
	vnCover("C10.seq-checked")
}
