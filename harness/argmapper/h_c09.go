//go:build verif

package argmapper

import "fmt"

var _ = fmt.Sprint

// HarnessC09 — Redefine is pure planning: it runs no user code and disturbs no function.
//
// World A: Call only. World B (same specs, fresh objects): nRedef Redefine calls
// with symbolic filters, then Call (twice when a run-once converter is present).
// Logs, results and errors must agree; nothing is logged during Redefine; no
// field of any supplied Func is written by Redefine.
//
//	once: 1 = converter 1 is a run-once function
func HarnessC09(fam, nT, nV, convCode, form, nRedef, once int) {
	hOrderSites(0)
	w := hTemplate(fam, nT, nV, convCode, form, 0)
	w.Target.Out = []hLabel{{T: hTP2}}
	if once == 1 && len(w.Convs) > 0 {
		w.Convs[0].Once = true
	}
	vnNote(w.String())
	vnOnDivergence("", "")
	// symbolically, every value and converter is a construction default of the target
	// and all calls are made without options
	asDefaults := vnBool("asDefaults")
	build := func() ([]Arg, bool) {
		if asDefaults {
			return nil, w.hBuildAllAsDefaults()
		}
		return w.hBuildAll()
	}
	if asDefaults {
		vnNoteAppend(" [all options are construction defaults]")
	}
	// --- world A: the reference call
	argsA, ok := build()
	if !ok {
		vnAssume(false)
	}
	var rA Result
	if hGuardPlain(func() { rA = w.Funcs[0].Call(argsA...) }) {
		return // C06's subject
	}
	logA := w.Log
	// --- world B: Redefine first
	w.Log = nil
	argsB, _ := build()
	funcsB := w.Funcs
	roots := make([]interface{}, 0, len(funcsB)+1)
	for _, f := range funcsB {
		roots = append(roots, f)
	}
	roots = append(roots, argsB)
	vnEpoch(roots...)
	for k := 0; k < nRedef; k++ {
		rargs := append([]Arg{}, argsB...)
		// one of six Redefine variants, chosen symbolically
		switch hPick("mode", 7, k) {
		case 0: // plain
		case 1: // input filter admitting one concrete type
			rargs = append(rargs, FilterInput(FilterType(hType(hTP0))))
		case 2: // input filter admitting nothing: Redefine fails
			rargs = append(rargs, FilterInput(func(Value) bool { return false }))
		case 3: // output filter rejecting everything: Redefine fails early
			rargs = append(rargs, FilterOutput(func(Value) bool { return false }))
		case 4: // fewer supplied values
			if asDefaults {
				vnAssume(false)
			}
			rargs = rargs[len(w.Vals):]
		case 6: // the first converter is offered by a converter generator instead, and a
			// type filter routes the planning through it
			if len(w.Convs) == 0 || len(w.Convs[0].In) == 0 || asDefaults {
				vnAssume(false)
			}
			gf := funcsB[1]
			gt := hType(w.Convs[0].In[0].T)
			rargs = append([]Arg{}, argsB[:len(w.Vals)]...)
			for _, c := range w.Convs[1:] {
				rargs = append(rargs, ConverterFunc(funcsB[c.ID]))
			}
			rargs = append(rargs, ConverterGen(func(v Value) (*Func, error) {
				if v.Type == gt {
					return gf, nil
				}
				return nil, nil
			}), FilterInput(FilterType(gt)))
		case 5: // interface-typed input filter and an admitting output filter
			rargs = append(rargs, FilterInput(FilterOr(FilterType(hType(hTI)), FilterType(hType(hTP1)))), FilterOutput(func(Value) bool { return true }))
		}
		if hGuardPlain(func() { vnConcurrently(func() { _, _ = funcsB[0].Redefine(rargs...) }) }) {
			return // C06's subject
		}
		vnAssert(len(w.Log) == 0, "C09.redefine-executes-no-user-code")
	}
	vnAssert(vnSharedWrites() == 0, "C09.redefine-writes-no-shared-function-state")
	if vnSharedWrites() != 0 {
		vnNoteAppend(" | writes: " + vnSharedWriteSites())
	}
	vnCover("C09.redefines-done")
	vnScheduleRestart()
	var rB Result
	if hGuardPlain(func() { rB = funcsB[0].Call(argsB...) }) {
		vnAssert(false, "C09.call-after-redefine-does-not-panic")
		return
	}
	logB := w.Log
	// same outcome
	vnAssert((rA.Err() == nil) == (rB.Err() == nil), "C09.same-success-after-redefine")
	vnAssert(hOutcome(rA, false) == hOutcome(rB, false), "C09.same-outcome-class-after-redefine")
	vnAssert(len(logA) == len(logB), "C09.same-executions-after-redefine")
	if len(logA) == len(logB) {
		for i := range logA {
			vnAssert(logA[i].Fn == logB[i].Fn, "C09.same-function-sequence-after-redefine")
			if logA[i].Fn != logB[i].Fn || len(logA[i].Recv) != len(logB[i].Recv) {
				continue
			}
			for j := range logA[i].Recv {
				vnAssert(logA[i].Recv[j].T == logB[i].Recv[j].T && logA[i].Recv[j].ID == logB[i].Recv[j].ID, "C09.same-arguments-after-redefine")
			}
		}
	}
	if rA.Err() == nil && rB.Err() == nil && rA.Len() == 1 && rB.Len() == 1 {
		t1, id1 := hUnpack(rA.Out(0))
		t2, id2 := hUnpack(rB.Out(0))
		vnAssert(t1 == t2 && id1 == id2, "C09.same-results-after-redefine")
		vnCover("C09.results-compared")
	}
	if once == 1 && len(w.Convs) > 0 {
		// the run-once converter still executes (once) on its first real use
		n := 0
		for _, ex := range logB {
			if ex.Fn == 1 {
				n++
			}
		}
		nA := 0
		for _, ex := range logA {
			if ex.Fn == 1 {
				nA++
			}
		}
		vnAssert(n == nA, "C09.run-once-converter-executes-on-first-real-use")
		vnAssert(n <= 1, "C09.run-once-converter-at-most-once")
		if n == 1 {
			vnCover("C09.run-once-checked")
		}
	}
}
