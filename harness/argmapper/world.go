//go:build verif

package argmapper

import (
	"errors"
	"fmt"
	"reflect"
	"strings"

	"github.com/hashicorp/go-hclog"
	"github.com/hashicorp/go-multierror"
)

// Shared specification vocabulary of the resolver harnesses (DESIGN.md §4):
// labels, worlds, the two matching relations, derivability, and the builder
// that turns a world into real *Func objects through the public API in the
// four forms the properties name.

// ---- type pool ----------------------------------------------------------

type hP0 struct{ ID int }
type hP1 struct{ ID int }
type hP2 struct{ ID int }
type hP3 struct{ ID int }
type hP4 struct{ ID int }

// hList is a defined type whose underlying type is the unnamed []int (hTSlice):
// Go assignability relates them although they are different types.
type hList []int

func (hP2) hIsI() {}

// hI is implemented by hP2 only.
type hI interface{ hIsI() }

const (
	hTP0    = 0
	hTP1    = 1
	hTP2    = 2
	hTI     = 3
	hTP3    = 4
	hTP4    = 5
	hTList  = 6 // hList
	hTSlice = 7 // []int
	hTPtr0  = 8 // *hP0 (unnamed type)
	hTPtr1  = 9 // *hP1 (unnamed type)
	hTArr   = 10 // [1]int (unnamed, not a pointer: Name() and PkgPath() are empty)
)

var hTypeNames = []string{"P0", "P1", "P2", "I", "P3", "P4", "List", "[]int", "*P0", "*P1", "[1]int"}

func hType(t int) reflect.Type {
	switch t {
	case hTP0:
		return reflect.TypeOf(hP0{})
	case hTP1:
		return reflect.TypeOf(hP1{})
	case hTP2:
		return reflect.TypeOf(hP2{})
	case hTP3:
		return reflect.TypeOf(hP3{})
	case hTP4:
		return reflect.TypeOf(hP4{})
	case hTList:
		return reflect.TypeOf(hList(nil))
	case hTSlice:
		return reflect.TypeOf([]int(nil))
	case hTPtr0:
		return reflect.TypeOf((*hP0)(nil))
	case hTPtr1:
		return reflect.TypeOf((*hP1)(nil))
	case hTArr:
		return reflect.TypeOf([1]int{})
	}
	return reflect.TypeOf((*hI)(nil)).Elem()
}

// hMk makes a value of concrete pool type t carrying the payload id.
func hMk(t int, id int) interface{} {
	switch t {
	case hTP0:
		return hP0{id}
	case hTP1:
		return hP1{id}
	case hTP3:
		return hP3{id}
	case hTP4:
		return hP4{id}
	case hTList:
		return hList{id}
	case hTSlice:
		return []int{id}
	case hTPtr0:
		return &hP0{id}
	case hTPtr1:
		return &hP1{id}
	case hTArr:
		return [1]int{id}
	}
	return hP2{id}
}

// hUnpack returns the dynamic pool type and payload of an injected value.
func hUnpack(v interface{}) (int, int) {
	switch x := v.(type) {
	case hP0:
		return hTP0, x.ID
	case hP1:
		return hTP1, x.ID
	case hP2:
		return hTP2, x.ID
	case hP3:
		return hTP3, x.ID
	case hP4:
		return hTP4, x.ID
	case hList:
		if len(x) == 1 {
			return hTList, x[0]
		}
	case []int:
		if len(x) == 1 {
			return hTSlice, x[0]
		}
	case *hP0:
		if x != nil {
			return hTPtr0, x.ID
		}
	case *hP1:
		if x != nil {
			return hTPtr1, x.ID
		}
	case [1]int:
		return hTArr, x[0]
	}
	return -1, 0
}

// hAssignable: a value of concrete type src may be stored in a slot of type dst.
func hAssignable(src, dst int) bool {
	return src == dst || (dst == hTI && src == hTP2)
}

// ---- labels -------------------------------------------------------------

type hLabel struct {
	Name string
	T    int
	Sub  string
}

func (l hLabel) String() string {
	s := l.Name + ":" + hTypeNames[l.T]
	if l.Sub != "" {
		s += "/" + l.Sub
	}
	return s
}

// hCompat is the matching table C01 states: the MOST the library may do.
func hCompat(src, par hLabel) bool {
	nameOK := src.Name == "" || par.Name == "" || src.Name == par.Name
	if src.T == par.T {
		return nameOK && (src.Sub == par.Sub || src.Sub == "" || par.Sub == "")
	}
	if par.T == hTI && src.T == hTP2 {
		return nameOK
	}
	return false
}

// hPromised is the LEAST the library must do (README, Func doc, its own tests).
func hPromised(src, par hLabel) bool {
	switch {
	case src.Name != "" && par.Name != "":
		return src.Name == par.Name && src.T == par.T && (src.Sub == par.Sub || par.Sub == "")
	case src.Name == "" && par.Name == "":
		if src.T == par.T {
			return src.Sub == par.Sub || src.Sub == "" || par.Sub == ""
		}
		return par.T == hTI && src.T == hTP2 && src.Sub == "" && par.Sub == ""
	case src.Name != "" && par.Name == "":
		return src.T == par.T && src.Sub == par.Sub
	default: // typed source, named parameter
		return src.T == par.T && src.Sub == "" && par.Sub == ""
	}
}

// ---- worlds -------------------------------------------------------------

const (
	hFormPositional = 0
	hFormStruct     = 1
	hFormPtrStruct  = 2
	hFormBuilt      = 3
)

var hFormNames = []string{"positional", "struct", "*struct", "built"}

type hFuncSpec struct {
	ID     int // 0 = target, k>=1 = converter k
	Form   int
	In     []hLabel
	Out    []hLabel
	HasErr bool // declares a final error result
	Fails  bool // (possibly symbolic) the body returns its error
	Once   bool
}

type hVal struct {
	L  hLabel
	ID int // payload
}

type hRecv struct {
	T  int // dynamic pool type received (-1: not a pool value)
	ID int
}

type hExec struct {
	Fn   int
	Recv []hRecv
	Out  []hVal // sources created by this execution
	Err  bool
}

type hWorld struct {
	Target hFuncSpec
	Vals   []hVal
	Convs  []hFuncSpec

	Log  []hExec
	Errs []error // Errs[k]: the distinct error object converter/target k returns when it fails

	Funcs []*Func // built functions, index = spec ID

	// Mode bits 32 (symbolic option spellings) and 64 (shadowed defaults on the target): see hBuildAll.
	// Mode: template mode bits (8: symbolic complete earlier call on the same target,
	// 16: all options are construction defaults)
	Mode int

	// provFinding: classification (known-finding id) attached to provenance violations
	provFinding string

	// EmptySetNotNil: "no outputs" of a built function is NewValueSet(empty list) (a
	// marker-only struct result) instead of a nil set
	EmptySetNotNil bool

	// NilPtrOnFail: a failing *struct-form function returns a nil pointer next to its error
	NilPtrOnFail bool

	// ErrKind: what kind of error value a failing function returns: 0 a distinct pointer
	// error (fmt.Errorf), 1 a distinct *ErrArgumentUnsatisfied (the library's own error
	// type, as a converter forwarding an inner call's error returns), 2 / 3 a
	// struct-valued error that is the ZERO value of its type for converter 1 / for the
	// target (non-nil as an error all the same), 4 a *multierror.Error holding one error
	ErrKind int

	// FailFn, when set, overrides the specs' Fails bit at execution time
	// (lets a history make a function fail in one call and succeed in the next).
	FailFn func(id int) bool
}

func (w *hWorld) String() string {
	var sb strings.Builder
	sb.WriteString("target" + hSpecString(w.Target))
	sb.WriteString(" vals{")
	for i, v := range w.Vals {
		if i > 0 {
			sb.WriteString(" ")
		}
		sb.WriteString(v.L.String())
	}
	sb.WriteString("}")
	for _, c := range w.Convs {
		sb.WriteString(fmt.Sprintf(" conv%d%s", c.ID, hSpecString(c)))
	}
	return sb.String()
}

func hSpecString(f hFuncSpec) string {
	var in, out []string
	for _, l := range f.In {
		in = append(in, l.String())
	}
	for _, l := range f.Out {
		out = append(out, l.String())
	}
	s := "[" + hFormNames[f.Form] + "](" + strings.Join(in, ",") + ")"
	if f.ID != 0 || len(out) > 0 {
		s += "->(" + strings.Join(out, ",") + ")"
	}
	if f.HasErr {
		s += "!"
	}
	if f.Once {
		s += "@once"
	}
	return s
}

// hKey is the option-map key of a supplied value / the field key of a parameter.
func hKey(l hLabel) string {
	if l.Name != "" {
		return "n:" + l.Name + "/" + l.Sub
	}
	return "t:" + hTypeNames[l.T] + "/" + l.Sub
}

// hDistinct reports whether a label list is well formed for one struct:
// no repeated name, no repeated type among the type-only entries.
func hDistinct(ls []hLabel) bool {
	for i := range ls {
		for j := i + 1; j < len(ls); j++ {
			if ls[i].Name != "" && ls[i].Name == ls[j].Name {
				return false
			}
			if ls[i].Name == "" && ls[j].Name == "" && ls[i].T == ls[j].T {
				return false
			}
		}
	}
	return true
}

// hDistinctKeys is the weaker well-formedness: no repeated name, no repeated
// (type, subtype) among the type-only entries.
func hDistinctKeys(ls []hLabel) bool {
	for i := range ls {
		for j := i + 1; j < len(ls); j++ {
			if ls[i].Name != "" && ls[i].Name == ls[j].Name {
				return false
			}
			if ls[i].Name == "" && ls[j].Name == "" && ls[i].T == ls[j].T && ls[i].Sub == ls[j].Sub {
				return false
			}
		}
	}
	return true
}

// hDerivable computes the least fixpoint of derivable sources under relation
// rel and reports, per target parameter, whether it is derivable. fired[k]
// tells whether converter k (index into w.Convs) can fire.
func hDerivable(w *hWorld, rel func(src, par hLabel) bool) (par []bool, fired []bool) {
	var srcs []hLabel
	for _, v := range w.Vals {
		srcs = append(srcs, v.L)
	}
	fired = make([]bool, len(w.Convs))
	for changed := true; changed; {
		changed = false
		for k, c := range w.Convs {
			if fired[k] {
				continue
			}
			ok := true
			for _, p := range c.In {
				has := false
				for _, s := range srcs {
					if rel(s, p) {
						has = true
					}
				}
				if !has {
					ok = false
				}
			}
			if ok {
				fired[k] = true
				changed = true
				srcs = append(srcs, c.Out...)
			}
		}
	}
	par = make([]bool, len(w.Target.In))
	for i, p := range w.Target.In {
		for _, s := range srcs {
			if rel(s, p) {
				par[i] = true
			}
		}
	}
	return par, fired
}

// ---- building real functions -------------------------------------------

var hErrBuild = errors.New("harness: cannot build function")

func hTag(l hLabel) string {
	// name comes from the field; options after the comma
	parts := []string{""}
	if l.Name == "" {
		parts = append(parts, "typeOnly")
	}
	if l.Sub != "" {
		parts = append(parts, "subtype="+l.Sub)
	}
	if len(parts) == 1 {
		return ""
	}
	return `argmapper:"` + strings.Join(parts, ",") + `"`
}

func hStructType(ls []hLabel) reflect.Type {
	sf := []reflect.StructField{{Name: "Struct", Type: structMarkerType, Anonymous: true}}
	for i, l := range ls {
		name := fmt.Sprintf("V%d", i)
		if l.Name != "" {
			name = strings.ToUpper(l.Name)
		}
		sf = append(sf, reflect.StructField{Name: name, Type: hType(l.T), Tag: reflect.StructTag(hTag(l))})
	}
	return reflect.StructOf(sf)
}

// hBody is the common body of every generated function: it logs what it
// received and returns uninterpreted-function payloads.
func (w *hWorld) hBody(f hFuncSpec, recv []hRecv) (outs []interface{}, err error) {
	ex := hExec{Fn: f.ID, Recv: recv}
	ids := make([]int, len(recv))
	for i, r := range recv {
		ids[i] = r.ID
	}
	if f.Once {
		// a run-once function may be impure: its result also depends on how many times its
		// body has run (always 1 under a correct library)
		n := 1
		vnLocked(func() {
			for _, e := range w.Log {
				if e.Fn == f.ID {
					n++
				}
			}
		})
		ids = append(ids, n)
	}
	fails := f.Fails
	if w.FailFn != nil {
		fails = w.FailFn(f.ID)
	}
	if f.HasErr && fails {
		ex.Err = true
		vnLocked(func() { w.Log = append(w.Log, ex) })
		return nil, w.Errs[f.ID]
	}
	for j, l := range f.Out {
		id := vnUF(fmt.Sprintf("f%do%d", f.ID, j), ids...)
		t := l.T
		if t == hTI {
			t = hTP2
		}
		outs = append(outs, hMk(t, id))
		ex.Out = append(ex.Out, hVal{L: hLabel{l.Name, t, l.Sub}, ID: id})
	}
	vnLocked(func() { w.Log = append(w.Log, ex) })
	return outs, nil
}

func hRecvOf(v reflect.Value) hRecv {
	if !v.IsValid() {
		return hRecv{T: -1}
	}
	t, id := hUnpack(v.Interface())
	return hRecv{T: t, ID: id}
}

// hBuild turns a spec into a real *Func in the requested form.
func (w *hWorld) hBuild(f hFuncSpec, opts ...Arg) (*Func, error) {
	if f.Once {
		opts = append(opts, FuncOnce())
	}
	switch f.Form {
	case hFormBuilt:
		var ivs, ovs []Value
		for _, l := range f.In {
			ivs = append(ivs, Value{Name: l.Name, Type: hType(l.T), Subtype: l.Sub})
		}
		for _, l := range f.Out {
			ovs = append(ovs, Value{Name: l.Name, Type: hType(l.T), Subtype: l.Sub})
		}
		in, err := NewValueSet(ivs)
		if err != nil {
			return nil, err
		}
		var out *ValueSet
		if len(ovs) > 0 || w.EmptySetNotNil {
			// (an empty list would give a marker-only struct result; "no outputs" is a nil set)
			out, err = NewValueSet(ovs)
			if err != nil {
				return nil, err
			}
		}
		return BuildFunc(in, out, func(in, out *ValueSet) error {
			vals := in.Values()
			recv := make([]hRecv, len(vals))
			for i, v := range vals {
				recv[i] = hRecvOf(v.Value)
			}
			outs, err := w.hBody(f, recv)
			if err != nil {
				return err
			}
			for j := range f.Out {
				// the set keeps the declaration order; address the j-th value directly
				// (Named/TypedSubtype are ambiguous when a named and a type-only value
				// share type and subtype)
				if j < len(out.values) {
					out.values[j].Value = reflect.ValueOf(outs[j])
				}
			}
			return nil
		}, opts...)

	case hFormPositional:
		var ins, outs []reflect.Type
		for _, l := range f.In {
			if l.Name != "" || l.Sub != "" {
				return nil, hErrBuild
			}
			ins = append(ins, hType(l.T))
		}
		for _, l := range f.Out {
			if l.Name != "" || l.Sub != "" {
				return nil, hErrBuild
			}
			outs = append(outs, hType(l.T))
		}
		if f.HasErr {
			outs = append(outs, errType)
		}
		ft := reflect.FuncOf(ins, outs, false)
		fn := reflect.MakeFunc(ft, func(args []reflect.Value) []reflect.Value {
			recv := make([]hRecv, len(args))
			for i, a := range args {
				recv[i] = hRecvOf(a)
			}
			vals, err := w.hBody(f, recv)
			res := make([]reflect.Value, 0, len(outs))
			for j := range f.Out {
				if err != nil {
					res = append(res, reflect.Zero(outs[j]))
				} else {
					res = append(res, reflect.ValueOf(vals[j]))
				}
			}
			if f.HasErr {
				if err != nil {
					res = append(res, reflect.ValueOf(err))
				} else {
					res = append(res, reflect.Zero(errType))
				}
			}
			return res
		})
		return NewFunc(fn.Interface(), opts...)

	case hFormStruct, hFormPtrStruct:
		var ins, outs []reflect.Type
		var inS, outS reflect.Type
		if len(f.In) > 0 {
			inS = hStructType(f.In)
			if f.Form == hFormPtrStruct {
				ins = []reflect.Type{reflect.PtrTo(inS)}
			} else {
				ins = []reflect.Type{inS}
			}
		}
		if len(f.Out) > 0 {
			outS = hStructType(f.Out)
			if f.Form == hFormPtrStruct {
				outs = []reflect.Type{reflect.PtrTo(outS)}
			} else {
				outs = []reflect.Type{outS}
			}
		}
		if f.HasErr {
			outs = append(outs, errType)
		}
		ft := reflect.FuncOf(ins, outs, false)
		fn := reflect.MakeFunc(ft, func(args []reflect.Value) []reflect.Value {
			recv := make([]hRecv, len(f.In))
			if len(f.In) > 0 {
				s := args[0]
				if f.Form == hFormPtrStruct {
					s = s.Elem()
				}
				for i := range f.In {
					recv[i] = hRecvOf(s.Field(i + 1))
				}
			}
			vals, err := w.hBody(f, recv)
			var res []reflect.Value
			if len(f.Out) > 0 {
				sp := reflect.New(outS)
				if err == nil {
					for j := range f.Out {
						sp.Elem().Field(j + 1).Set(reflect.ValueOf(vals[j]))
					}
				}
				if f.Form == hFormPtrStruct {
					if err != nil && w.NilPtrOnFail {
						res = append(res, reflect.Zero(reflect.PtrTo(outS)))
					} else {
						res = append(res, sp)
					}
				} else {
					res = append(res, sp.Elem())
				}
			}
			if f.HasErr {
				if err != nil {
					res = append(res, reflect.ValueOf(err))
				} else {
					res = append(res, reflect.Zero(errType))
				}
			}
			return res
		})
		return NewFunc(fn.Interface(), opts...)
	}
	return nil, hErrBuild
}

// hValErr is an error type whose zero value is a perfectly good (non-nil) error.
type hValErr struct{ Code int }

func (e hValErr) Error() string { return fmt.Sprintf("harness value error %d", e.Code) }

func (w *hWorld) hMkErr(k int) error {
	switch w.ErrKind {
	case 1:
		return &ErrArgumentUnsatisfied{}
	case 2:
		return hValErr{Code: k - 1}
	case 3:
		return hValErr{Code: k}
	case 4:
		return &multierror.Error{Errors: []error{fmt.Errorf("inner error of function %d", k)}}
	}
	return fmt.Errorf("harness error of function %d", k)
}

// hSetKeysDistinct: no two values share a name, and no two type-only values share type
// and subtype (NewValueSet's precondition; TypedSubtype also finds named values).
func hSetKeysDistinct(vals []hVal) bool {
	for i, a := range vals {
		for j, b := range vals {
			if i >= j {
				continue
			}
			if a.L.Name != "" && a.L.Name == b.L.Name {
				return false
			}
			if a.L.T == b.L.T && a.L.Sub == b.L.Sub {
				return false
			}
		}
	}
	return true
}

// hValArg is the option that supplies value i. With mode bit 32 the spelling is
// symbolic: the same labelled value can be written as NamedSubtype, Named, Typed
// (also after a nil in the same variadic Typed), or TypedSubtype.
func (w *hWorld) hValArg(i int, v hVal) Arg {
	val := hMk(v.L.T, v.ID)
	if w.Mode&32 == 0 {
		return NamedSubtype(v.L.Name, val, v.L.Sub)
	}
	switch {
	case v.L.Name == "" && v.L.Sub == "":
		switch hPick("spelling", 4, i) {
		case 1:
			return Typed(val)
		case 2:
			return Typed(nil, val)
		case 3:
			return TypedSubtype(val, "")
		}
	case v.L.Name == "":
		if hPick("spelling", 2, i) == 1 {
			return TypedSubtype(val, v.L.Sub)
		}
	case v.L.Sub == "":
		if hPick("spelling", 2, i) == 1 {
			return Named(v.L.Name, val)
		}
	}
	return NamedSubtype(v.L.Name, val, v.L.Sub)
}

// hBuildAll builds the target and every converter and returns the option list
// (values, then converters) for a call.
func (w *hWorld) hBuildAll() ([]Arg, bool) {
	n := len(w.Convs) + 1
	w.Errs = make([]error, n)
	w.Funcs = make([]*Func, n)
	for k := 0; k < n; k++ {
		w.Errs[k] = w.hMkErr(k)
	}
	var topts []Arg
	if w.Mode&64 != 0 {
		// the target carries DEFAULT values under the keys of its own parameters
		// (different payloads): arguments given to Call take precedence over them
		for i, p := range w.Target.In {
			if p.T != hTI {
				topts = append(topts, NamedSubtype(p.Name, hMk(p.T, vnPayload("shadowedDefault", i)), p.Sub))
			}
		}
	}
	t, err := w.hBuild(w.Target, topts...)
	if err != nil {
		return nil, false
	}
	w.Funcs[0] = t
	var args []Arg
	viaSet := false
	if w.Mode&32 != 0 && len(w.Vals) > 0 && hSetKeysDistinct(w.Vals) && vnBool("viaValueSetArgs") {
		// all values are handed over as ValueSet.Args() of a value set that holds them
		// (built with NewValueSet, each value stored through the public accessors)
		var vs []Value
		for _, v := range w.Vals {
			vs = append(vs, Value{Name: v.L.Name, Type: hType(v.L.T), Subtype: v.L.Sub})
		}
		if set, err := NewValueSet(vs); err == nil {
			ok := true
			for _, v := range w.Vals {
				var p *Value
				if v.L.Name != "" {
					p = set.Named(v.L.Name)
				} else {
					p = set.TypedSubtype(hType(v.L.T), v.L.Sub)
				}
				if p == nil {
					ok = false
					break
				}
				p.Value = reflect.ValueOf(hMk(v.L.T, v.ID))
			}
			if ok {
				args = append(args, set.Args()...)
				viaSet = len(args) == len(w.Vals)
				if !viaSet {
					args = nil
				}
			}
		}
	}
	for i, v := range w.Vals {
		if viaSet {
			break
		}
		args = append(args, w.hValArg(i, v))
	}
	for _, c := range w.Convs {
		cf, err := w.hBuild(c)
		if err != nil {
			return nil, false
		}
		w.Funcs[c.ID] = cf
		args = append(args, ConverterFunc(cf))
	}
	return args, true
}

// hBuildAllAsDefaults builds the converters first and then the target with every
// value and converter attached as a DEFAULT option at construction; calls then
// need no options at all.
func (w *hWorld) hBuildAllAsDefaults() bool {
	n := len(w.Convs) + 1
	w.Errs = make([]error, n)
	w.Funcs = make([]*Func, n)
	for k := 0; k < n; k++ {
		w.Errs[k] = w.hMkErr(k)
	}
	var opts []Arg
	for _, v := range w.Vals {
		opts = append(opts, NamedSubtype(v.L.Name, hMk(v.L.T, v.ID), v.L.Sub))
	}
	for _, c := range w.Convs {
		cf, err := w.hBuild(c)
		if err != nil {
			return false
		}
		w.Funcs[c.ID] = cf
		opts = append(opts, ConverterFunc(cf))
	}
	t, err := w.hBuild(w.Target, opts...)
	if err != nil {
		return false
	}
	w.Funcs[0] = t
	return true
}

// ---- symbolic label generation ------------------------------------------

// Families: which label dimensions vary.
//
//	0 F-type  types {P0,P1,P2,I}, no names, no subtypes
//	1 F-name  names {"",a,b}, types {P0,P1}, no subtypes
//	2 F-sub   subtypes {"",s,S} (subtypes are case sensitive), names {"",a}, type P0
//	3 F-full  names {"",a,b}, types {P0,P1}, subtypes {"",s}
//	4 F-iface names {"",a}, types {P0,P2,I}, no subtypes
//	5 F-chain types {P0,P1,P2,P3,P4} (interchangeable: canonical first-use order is assumed), no names, no subtypes
//	6 F-tsub  types {P0,P1,P2} (canonical order), no names, subtypes {"",s,t}
//	9 F-ptr   names {"",a}, UNNAMED types {*P0, *P1, []int} (Name() and PkgPath() are empty for all of them)
//	8 F-assign names {"",a}, types {P0, hList (defined, underlying []int), []int}: assignable but different types
//	10 F-asub no names, types {hList, []int} (assignable but different), subtypes {"",s}
//	11 F-unnamed names {"",a}, types {[]int, [1]int (both unnamed non-pointer types), P0}, no subtypes
//	7 F-nsub  names {"",a,b}, types {P0,P1}, subtypes {"",s} on type P0 only... (= F-full with canonical type order)
var hNamePool = [][]string{{""}, {"", "a", "b"}, {"", "a"}, {"", "a", "b"}, {"", "a"}, {""}, {""}, {"", "a", "b"}, {"", "a"}, {"", "a"}, {""}, {"", "a"}}
var hTypePool = [][]int{{hTP0, hTP1, hTP2, hTI}, {hTP0, hTP1}, {hTP0}, {hTP0, hTP1}, {hTP0, hTP2, hTI}, {hTP0, hTP1, hTP2, hTP3, hTP4}, {hTP0, hTP1, hTP2}, {hTP0, hTP1}, {hTP0, hTList, hTSlice}, {hTPtr0, hTPtr1, hTSlice}, {hTList, hTSlice}, {hTSlice, hTArr, hTP0}}
var hSubPool = [][]string{{""}, {""}, {"", "s", "S"}, {"", "s"}, {""}, {""}, {"", "s", "S"}, {"", "s"}, {""}, {""}, {"", "s"}, {""}}

// families whose types are interchangeable plain structs: labels are drawn in
// canonical (first-use) order so that the solver prunes relabelled duplicates
var hCanonTypes = []bool{false, false, false, false, false, true, true, true, false, false, false, false}

// hMaxType is the highest pool position used so far in the world being drawn.
var hMaxType = -1

// hSymLabel draws a label symbolically from the family's pools. concreteOnly
// excludes the interface type (supplied values always have a concrete type).
func hSymLabel(fam int, tag string, concreteOnly bool) hLabel {
	names, types, subs := hNamePool[fam], hTypePool[fam], hSubPool[fam]
	l := hLabel{}
	if len(names) > 1 {
		l.Name = names[vnChoice(tag+".n", len(names))]
	}
	if len(types) > 1 {
		ti := vnChoice(tag+".t", len(types))
		if hCanonTypes[fam] {
			vnAssume(ti <= hMaxType+1) // types appear in first-use order
		}
		ti = hIota[ti]
		if ti > hMaxType {
			hMaxType = ti
		}
		l.T = types[ti]
	} else {
		l.T = types[0]
	}
	if len(subs) > 1 {
		l.Sub = subs[vnChoice(tag+".s", len(subs))]
	}
	if concreteOnly && l.T == hTI {
		vnAssume(false)
	}
	return l
}

var hIota = [10]int{0, 1, 2, 3, 4, 5, 6, 7, 8, 9}

// hQuietLogs is called by the native replay test before it runs a harness: the
// repository's own tests switch the default logger to TRACE, and every log call
// takes the logger's mutex, which orders otherwise unordered accesses of two
// goroutines and hides data races from the race detector. (gose models logging
// as inert.)
func hQuietLogs() { hclog.L().SetLevel(hclog.Error) }

// hPick is vnChoice made concrete (forks over the k values in increasing order).
func hPick(name string, k int, idx ...int) int { return hIota[vnChoice(name, k, idx...)] }

// hUnambiguous: no type-only label shares its type with another label of the
// list (otherwise the resolver may legitimately feed it that other value).
func hUnambiguous(ls []hLabel) bool {
	for i := range ls {
		if ls[i].Name != "" {
			continue
		}
		for j := range ls {
			if i != j && ls[j].T == ls[i].T {
				return false
			}
		}
	}
	return true
}

// hResultIDs unpacks the pool values of a result: positional outputs directly,
// a single (pointer to) marker struct output field by field.
func hResultIDs(r Result) []hRecv {
	var out []hRecv
	for i := 0; i < r.Len(); i++ {
		v := r.Out(i)
		if t, id := hUnpack(v); t >= 0 {
			out = append(out, hRecv{T: t, ID: id})
			continue
		}
		rv := reflect.ValueOf(v)
		for rv.IsValid() && rv.Kind() == reflect.Ptr {
			rv = rv.Elem()
		}
		if rv.IsValid() && rv.Kind() == reflect.Struct {
			for j := 1; j < rv.NumField(); j++ {
				t, id := hUnpack(rv.Field(j).Interface())
				out = append(out, hRecv{T: t, ID: id})
			}
		}
	}
	return out
}
