//go:build verif

package argmapper

import (
	"errors"
	"fmt"
)

// hTemplate builds a world from a concrete template with symbolic labels.
//
//	fam       label family (see hSymLabel)
//	nT        number of target parameters
//	nV        number of supplied values
//	convCode  converters as decimal digit pairs (inputs, outputs), e.g. 11 = one
//	          1-in/1-out converter, 1121 = (1,1) and (2,1), 0 = none
//	form      0 positional where the labels allow it (else struct), 1 struct, 2 *struct,
//	          3 built (BuildFunc), 9 symbolic choice per function
//	errMode   0 converters declare no error, 1 converters declare an error and
//	          fail symbolically; +2: converters are symbolically run-once;
//	          +4: type-only entries of one list need only differ in (type, subtype)
//	convCode  digit 9 in an input position means a provider (no inputs)
func hTemplate(fam, nT, nV, convCode, form, errMode int) *hWorld {
	if fam >= 100 {
		sw := hSkeleton(fam-100, form, errMode)
		sw.Mode = errMode
		return sw
	}
	w := &hWorld{Mode: errMode}
	hMaxType = -1
	symOnce := errMode&2 != 0
	weakDistinct := errMode&4 != 0
	errMode = errMode & 1
	distinct := hDistinct
	if weakDistinct {
		distinct = hDistinctKeys
	}
	var digits []int
	for c := convCode; c > 0; c /= 10 {
		digits = append([]int{c % 10}, digits...)
	}
	pickForm := func(tag string, ls1, ls2 []hLabel) int {
		f := form
		if form == 9 {
			f = hPick(tag+".form", 4)
		}
		if f == hFormPositional {
			for _, l := range append(append([]hLabel{}, ls1...), ls2...) {
				if l.Name != "" || l.Sub != "" {
					if form == 9 {
						vnAssume(false)
					}
					f = hFormStruct
				}
			}
		}
		return f
	}
	w.Target = hFuncSpec{ID: 0}
	for i := 0; i < nT; i++ {
		w.Target.In = append(w.Target.In, hSymLabel(fam, fmt.Sprintf("t%d", i), false))
	}
	if !distinct(w.Target.In) {
		vnAssume(false)
	}
	w.Target.Form = pickForm("t", w.Target.In, nil)
	seen := map[string]bool{}
	for i := 0; i < nV; i++ {
		l := hSymLabel(fam, fmt.Sprintf("v%d", i), true)
		if seen[hKey(l)] {
			vnAssume(false) // the same option key twice is C16's subject
		}
		seen[hKey(l)] = true
		w.Vals = append(w.Vals, hVal{L: l, ID: vnPayload("val", i)})
	}
	for k := 0; k+1 < len(digits); k += 2 {
		id := k/2 + 1
		c := hFuncSpec{ID: id}
		nIn := digits[k]
		if nIn == 9 {
			nIn = 0 // provider
		}
		for i := 0; i < nIn; i++ {
			c.In = append(c.In, hSymLabel(fam, fmt.Sprintf("c%di%d", id, i), false))
		}
		for j := 0; j < digits[k+1]; j++ {
			c.Out = append(c.Out, hSymLabel(fam, fmt.Sprintf("c%do%d", id, j), false))
		}
		if !distinct(c.In) || !distinct(c.Out) {
			vnAssume(false)
		}
		if symOnce && vnBool("once", id) {
			c.Once = true
		}
		c.Form = pickForm(fmt.Sprintf("c%d", id), c.In, c.Out)
		if errMode == 1 {
			c.HasErr = true
			c.Fails = vnBool("fails", id)
		}
		w.Convs = append(w.Convs, c)
	}
	// two converters of identical Go func type are one vertex for the library
	// (first registration wins): keep templates free of that aliasing
	for i := range w.Convs {
		for j := i + 1; j < len(w.Convs); j++ {
			if hSameSig(w.Convs[i], w.Convs[j]) {
				vnAssume(false)
			}
		}
		if hSameSig(w.Convs[i], w.Target) {
			vnAssume(false)
		}
	}
	return w
}

func hSameSig(a, b hFuncSpec) bool {
	if len(a.In) != len(b.In) || len(a.Out) != len(b.Out) || a.HasErr != b.HasErr {
		return false
	}
	// conservative: same label lists in the same order (the Go types of two
	// specs differ whenever any label or the form family differs)
	for i := range a.In {
		if a.In[i] != b.In[i] {
			return false
		}
	}
	for i := range a.Out {
		if a.Out[i] != b.Out[i] {
			return false
		}
	}
	return true
}

// hCall builds the world's functions and performs the call, shielding the
// harness from panics (which are C06's subject).
func (w *hWorld) hCall() (r Result, built bool, panicked bool, pmsg string) {
	var args []Arg
	var ok bool
	if w.Mode&16 != 0 {
		// every value and converter is a construction default; the call passes no options
		ok = w.hBuildAllAsDefaults()
	} else {
		args, ok = w.hBuildAll()
	}
	if !ok {
		return Result{}, false, false, ""
	}
	if w.Mode&8 != 0 && vnBool("priorCall") {
		// the same target was called before with a complete set of exactly matching values
		// (fresh payloads): nothing of that call may leak into this one
		var full []Arg
		for i, p := range w.Target.In {
			t := p.T
			if t == hTI {
				t = hTP2
			}
			full = append(full, NamedSubtype(p.Name, hMk(t, vnPayload("prior", i)), p.Sub))
		}
		hGuardPlain(func() { w.Funcs[0].Call(full...) })
		vnNoteAppend(" [after a complete earlier call]")
		w.Log = nil
	}
	func() {
		defer func() {
			if p := recover(); p != nil {
				panicked = true
				pmsg = fmt.Sprint(p)
			}
		}()
		if w.Mode&512 != 0 {
			// the call goes through a function obtained from Redefine with the converters
			// alone (it declares the values it needs as its inputs) and is given the values
			nf, err := w.Funcs[0].Redefine(args[len(w.Vals):]...)
			if err != nil || nf == nil {
				vnAssume(false)
			}
			if len(w.Log) != 0 {
				vnAssert(false, "C09.redefine-executes-no-user-code")
			}
			vnNoteAppend(" [called through a redefined function]")
			r = nf.Call(args[:len(w.Vals)]...)
			return
		}
		r = w.Funcs[0].Call(args...)
	}()
	// outcome class is iteration-order independent (C05): usable as a cross-validation digest
	vnTrace(fmt.Sprintf("outcome=%d", hOutcome(r, panicked)))
	return r, true, panicked, pmsg
}

func hSchedVector(sv int) {
	vnCut("(*github.com/hashicorp/go-argmapper/internal/graph.Graph).String")
	if sv > 0 {
		vnScheduleDefault(vnSeeded, 0)
		vnScheduleSeed(sv)
	}
}

// specOf returns the spec of function id.
func (w *hWorld) specOf(id int) hFuncSpec {
	if id == 0 {
		return w.Target
	}
	return w.Convs[id-1]
}

// hProvenance asserts C01 for every logged execution: each declared parameter
// received a value of an assignable dynamic type that IS one of the sources
// existing before that execution whose label is compatible with the parameter.
func (w *hWorld) hProvenance(prop string) {
	var srcs []hVal
	srcs = append(srcs, w.Vals...)
	for _, ex := range w.Log {
		f := w.specOf(ex.Fn)
		vnAssert(len(ex.Recv) == len(f.In), prop+".arity")
		if len(ex.Recv) != len(f.In) {
			return
		}
		for i, par := range f.In {
			r := ex.Recv[i]
			vnAssertK(r.T >= 0 && hAssignable(r.T, par.T), prop+".dynamic-type-assignable", w.classifyProvenance(par, srcs))
			ok := false
			for _, s := range srcs {
				if hCompat(s.L, par) && s.L.T == r.T {
					ok = vnOr(ok, r.ID == s.ID)
				}
			}
			vnAssertK(ok, prop+".received-a-compatible-source", w.classifyProvenance(par, srcs))
			if w.provFinding != "" {
				// a classified finding only excuses re-labelling of a real same-typed source,
				// never an invented, zero or stale value
				same := false
				for _, s := range srcs {
					if s.L.T == r.T {
						same = vnOr(same, r.ID == s.ID)
					}
				}
				vnAssert(same, prop+".received-a-real-source-of-its-type")
			}
			vnCover(prop + ".parameter-checked")
		}
		srcs = append(srcs, ex.Out...)
		if ex.Fn != 0 {
			vnCover(prop + ".converter-ran")
		}
	}
}

// classifyProvenance names the known finding (if any) whose input shape is
// present for this parameter.
func (w *hWorld) classifyProvenance(par hLabel, srcs []hVal) string {
	return w.provFinding
}

// HarnessC01 — every injected value is a label- and type-correct binding.
func HarnessC01(fam, nT, nV, convCode, form, sv, mode int) {
	hSchedVector(sv)
	w := hTemplate(fam, nT, nV, convCode, form, mode&^1)
	vnNote(w.String())
	vnOnDivergence("", "") // divergence is C06's subject
	_, built, panicked, _ := w.hCall()
	if !built {
		vnAssume(false)
	}
	vnCover("C01.call-returned")
	if panicked {
		return // no C01 verdict (C06's subject)
	}
	w.hProvenance("C01")
	for _, ex := range w.Log {
		if ex.Fn == 0 {
			vnCover("C01.target-ran")
		}
	}
}

// HarnessC02 — unsatisfiable calls are refused.
func HarnessC02(fam, nT, nV, convCode, form, sv, mode int) {
	hSchedVector(sv)
	w := hTemplate(fam, nT, nV, convCode, form, mode&^1)
	vnNote(w.String())
	der, _ := hDerivable(w, hCompat)
	under := false
	for _, d := range der {
		if !d {
			under = true
		}
	}
	if !under {
		vnAssume(false) // C02 speaks about underivable worlds only
	}
	_, allSat := hDerivable(w, hPromised)
	everyConvSatisfiable := true
	for _, s := range allSat {
		if !s {
			everyConvSatisfiable = false
		}
	}
	vnOnDivergence("C02.diverged-instead-of-refusing", w.classifyDivergence())
	args, okb := w.hBuildAll()
	if !okb {
		vnAssume(false)
	}
	// symbolically, the same target was called successfully before with a complete
	// set of exactly matching values: nothing of that call may satisfy this one
	if vnBool("priorCall") {
		var full []Arg
		for i, p := range w.Target.In {
			t := p.T
			if t == hTI {
				t = hTP2
			}
			full = append(full, NamedSubtype(p.Name, hMk(t, vnPayload("prior", i)), p.Sub))
		}
		hGuardPlain(func() { w.Funcs[0].Call(full...) })
		vnNoteAppend(" [after a complete earlier call]")
		w.Log = nil
	}
	var r Result
	panicked := hGuardPlain(func() { r = w.Funcs[0].Call(args...) })
	vnTrace(fmt.Sprintf("outcome=%d", hOutcome(r, panicked)))
	vnCover("C02.underivable-world")
	if panicked {
		return // C06's subject
	}
	err := r.Err()
	vnAssertK(err != nil, "C02.error-returned", w.classifyRefusal())
	for _, ex := range w.Log {
		vnAssertK(ex.Fn != 0, "C02.target-not-run", w.classifyRefusal())
	}
	// no converter ran with a missing argument: every received value is a real source
	w.hProvenance("C02")
	if err != nil && everyConvSatisfiable {
		var ue *ErrArgumentUnsatisfied
		vnAssert(errors.As(err, &ue), "C02.dedicated-error-type")
		vnCover("C02.dedicated-error-type-checked")
	}
}

func (w *hWorld) classifyRefusal() string    { return "" }
func (w *hWorld) classifyDivergence() string { return "" }

// HarnessC02Static — real Go signatures the generator cannot express.
func HarnessC02Static(kind int) {
	hSchedVector(0)
	ran := false
	x := vnPayload("x")
	var r Result
	switch kind {
	case 0: // the embedded exported field HBase is a named parameter "hbase" and is underivable
		f, err := NewFunc(func(in hWithEmbedded) { ran = true })
		if err != nil {
			vnAssume(false)
		}
		r = f.Call(Named("a", hP0{x}))
	case 1: // the same inside a converter that the target needs
		f, err := NewFunc(func(v hP1) { ran = true })
		if err != nil {
			vnAssume(false)
		}
		convRan := false
		r = f.Call(Named("a", hP0{x}), Converter(func(in hWithEmbedded) hP1 { convRan = true; return hP1{in.A.ID} }))
		vnAssert(!convRan, "C02.static.converter-not-run-with-a-missing-embedded-argument")
	}
	vnNote(fmt.Sprintf("static C02 scenario %d", kind))
	vnAssert(r.Err() != nil, "C02.static.error-returned")
	vnAssert(!ran, "C02.static.target-not-run")
	vnCover("C02.underivable-world")
}
