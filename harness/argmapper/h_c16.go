//go:build verif

package argmapper

import (
	"fmt"
	"reflect"
	"strings"
)

// C16 — options: case-insensitive names, last wins, call overrides default, nil-safe.

var hSpellings = []string{"ab", "AB", "aB", "Ab", "cd", "CD"}

// HarnessC16 — a target with a named parameter (field spelling symbolic), a second
// named parameter and a type-only parameter; m options drawn symbolically, the
// first d of them given as defaults at construction.
//
//	m      number of options (<=4)
//	withNil  1: a nil Arg may appear in the list
func HarnessC16(m, withNil int) {
	hOrderSites(0)
	fieldSp := hSpellings[vnChoice("field", 4)] // spelling of the first parameter's name in the struct tag
	// target: struct{ Struct; X P0 `argmapper:"<fieldSp>"`; Y P0 `argmapper:"cd"`; Z P1 `argmapper:",typeOnly"` }
	st := reflect.StructOf([]reflect.StructField{
		{Name: "Struct", Type: structMarkerType, Anonymous: true},
		{Name: "X", Type: hType(hTP0), Tag: reflect.StructTag(`argmapper:"` + fieldSp + `"`)},
		{Name: "Y", Type: hType(hTP0), Tag: `argmapper:"cd"`},
		{Name: "Z", Type: hType(hTP1), Tag: `argmapper:",typeOnly"`},
	})
	var gotX, gotY, gotZ int
	ran := 0
	fn := reflect.MakeFunc(reflect.FuncOf([]reflect.Type{st}, nil, false), func(args []reflect.Value) []reflect.Value {
		ran++
		_, gotX = hUnpack(args[0].Field(1).Interface())
		_, gotY = hUnpack(args[0].Field(2).Interface())
		_, gotZ = hUnpack(args[0].Field(3).Interface())
		return nil
	})
	// the option list
	const (
		oNamed = iota // Named(spelling, P0{payload})
		oTyped        // Typed(P1{payload})
		oNilVal       // Named(spelling, nil) / Typed(nil): ignored
		oNilArg       // a nil option
	)
	nk := 3
	if withNil == 1 {
		nk = 4
	}
	var opts []Arg
	lastX, lastY, lastZ := -1, -1, -1
	pay := make([]int, m)
	nilArg := false
	desc := ""
	for i := 0; i < m; i++ {
		pay[i] = vnPayload("pay", i)
		switch vnChoice("kind", nk, i) {
		case oNamed:
			sp := hSpellings[vnChoice("sp", len(hSpellings), i)]
			opts = append(opts, Named(sp, hP0{pay[i]}))
			if strings.ToLower(sp) == "ab" {
				lastX = i
			} else {
				lastY = i
			}
			desc += fmt.Sprintf("Named(%s) ", sp)
		case oTyped:
			opts = append(opts, Typed(hP1{pay[i]}))
			lastZ = i
			desc += "Typed(P1) "
		case oNilVal:
			sp := hSpellings[vnChoice("sp", len(hSpellings), i)]
			if vnBool("nilTyped", i) {
				opts = append(opts, Typed(nil))
			} else {
				opts = append(opts, Named(sp, nil))
			}
			desc += "nil-value "
		case oNilArg:
			opts = append(opts, nil)
			nilArg = true
			desc += "nil-Arg "
		}
	}
	d := vnChoice("defaults", m+1)
	vnNote(fmt.Sprintf("field spelling %q; options: %s; first %d are defaults", fieldSp, desc, d))
	var f *Func
	var err error
	if hGuardPlain(func() { f, err = NewFunc(fn.Interface(), opts[:d]...) }) {
		vnAssert(false, "C16.NewFunc-does-not-panic")
		return
	}
	if err != nil {
		// a nil default option may be reported at construction
		nilDefault := false
		for _, o := range opts[:d] {
			if o == nil {
				nilDefault = true
			}
		}
		vnAssert(nilDefault, "C16.construction-fails-only-for-a-nil-option")
		vnCover("C16.nil-default-reported")
		return
	}
	var r Result
	if hGuardPlain(func() { r = f.Call(opts[d:]...) }) {
		vnAssert(false, "C16.call-does-not-panic")
		return
	}
	vnCover("C16.call-returned")
	if nilArg {
		vnAssert(r.Err() != nil, "C16.nil-option-yields-error-result")
		vnAssert(ran == 0, "C16.nil-option-target-not-run")
		vnCover("C16.nil-option-checked")
		return
	}
	if lastX < 0 || lastY < 0 || lastZ < 0 {
		vnAssert(r.Err() != nil, "C16.missing-key-fails")
		return
	}
	vnAssert(r.Err() == nil, "C16.call-succeeds")
	if r.Err() != nil {
		return
	}
	vnAssert(ran == 1, "C16.target-ran-once")
	// last occurrence over defaults ++ call options wins; this is also "call overrides default"
	vnAssert(gotX == pay[lastX], "C16.named-last-occurrence-wins-case-insensitively")
	vnAssert(gotY == pay[lastY], "C16.second-name-last-occurrence-wins")
	vnAssert(gotZ == pay[lastZ], "C16.typed-last-occurrence-wins")
	if lastX < d || lastY < d || lastZ < d {
		vnCover("C16.default-applies")
	}
	if lastX >= d {
		vnCover("C16.call-overrides-or-supplies")
	}
	vnCover("C16.values-checked")
}

// HarnessC16Perm — permuting options that set distinct keys changes nothing when
// every parameter has an exactly matching value (conv=1 adds a distractor converter).
func HarnessC16Perm(n, conv int) {
	hOrderSites(0)
	labels := []hLabel{{Name: "a", T: hTP0}, {Name: "b", T: hTP0}, {T: hTP1}, {Name: "c", T: hTP1, Sub: "s"}}[:n]
	w := &hWorld{Target: hFuncSpec{ID: 0, Form: hFormStruct, In: labels}}
	for i, l := range labels {
		w.Vals = append(w.Vals, hVal{L: l, ID: vnPayload("val", i)})
	}
	if conv == 1 {
		w.Convs = []hFuncSpec{{ID: 1, Form: hFormStruct, In: []hLabel{{Name: "b", T: hTP0}}, Out: []hLabel{{Name: "a", T: hTP0}, {T: hTP1}}}}
	}
	args, ok := w.hBuildAll()
	if !ok {
		vnAssume(false)
	}
	// a symbolic permutation of the whole option list
	perm := make([]Arg, 0, len(args))
	rest := append([]Arg{}, args...)
	order := ""
	for len(rest) > 0 {
		i := hPick("pick", len(rest), len(rest))
		perm = append(perm, rest[i])
		order += fmt.Sprint(i)
		rest = append(rest[:i], rest[i+1:]...)
	}
	vnNote(fmt.Sprintf("%s permutation picks %s", w.String(), order))
	r := w.Funcs[0].Call(perm...)
	vnAssert(r.Err() == nil, "C16.permuted-call-succeeds")
	found := false
	for _, ex := range w.Log {
		if ex.Fn != 0 {
			vnAssert(false, "C16.permutation-no-converter-needed")
			continue
		}
		found = true
		for i := range labels {
			vnAssert(ex.Recv[i].T == labels[i].T && ex.Recv[i].ID == w.Vals[i].ID, "C16.permutation-injects-the-same-values")
		}
	}
	vnAssert(found, "C16.permutation-target-ran")
	vnCover("C16.permutation-checked")
}
