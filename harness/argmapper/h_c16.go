//go:build verif

package argmapper

import (
	"fmt"
	"reflect"
)

// C16 — options: case-insensitive names, last wins, call overrides default, nil-safe.

var hSpellX = []string{"ab", "aB"}
var hSpellY = []string{"cd", "Cd"}

// HarnessC16 — a target with four parameters of four different types:
//
//	X P0  named "ab" (the spelling in the struct tag is symbolic)
//	Y P2  named "cd" with subtype s
//	Z P1  type-only with subtype s
//
// m options are drawn symbolically from Named / NamedSubtype / Typed / TypedSubtype
// (with symbolic spellings), nil values and (withNil) a nil option. The first d are
// construction defaults, the next ones the options of a first call, the rest the
// options of a second call ON THE SAME Func: for each call the injected payloads
// must be those of the last occurrence of the key over defaults ++ that call's options.
func HarnessC16(m, withNil, withBase int) {
	hOrderSites(0)
	fieldSp := []string{"ab", "Ab"}[vnChoice("field", 2)]
	st := reflect.StructOf([]reflect.StructField{
		{Name: "Struct", Type: structMarkerType, Anonymous: true},
		{Name: "X", Type: hType(hTP0), Tag: reflect.StructTag(`argmapper:"` + fieldSp + `"`)},
		{Name: "Y", Type: hType(hTP2), Tag: `argmapper:"cd,subtype=s"`},
		{Name: "Z", Type: hType(hTP1), Tag: `argmapper:",typeOnly,subtype=s"`},
		{Name: "W", Type: hType(hTP3), Tag: `argmapper:",typeOnly"`},
	})
	var got [4]int
	ran := 0
	fn := reflect.MakeFunc(reflect.FuncOf([]reflect.Type{st}, nil, false), func(args []reflect.Value) []reflect.Value {
		ran++
		for i := 0; i < 4; i++ {
			_, got[i] = hUnpack(args[0].Field(i + 1).Interface())
		}
		return nil
	})
	const (
		oX      = iota // Named(spelling of ab, P0)
		oY             // NamedSubtype(spelling of cd, P2, "s")
		oZ             // TypedSubtype(P1, "s")
		oNilVal        // a nil value: ignored
		oNilArg        // a nil option
	)
	nk := 4
	if withNil == 1 {
		nk = 5
	}
	var opts []Arg
	key := make([]int, m) // which parameter option i sets (-1: none)
	pay := make([]int, m)
	isNilArg := make([]bool, m)
	desc := ""
	for i := 0; i < m; i++ {
		pay[i] = vnPayload("pay", i)
		key[i] = -1
		switch hPick("kind", nk, i) {
		case oX:
			sp := hSpellX[vnChoice("spx", len(hSpellX), i)]
			opts = append(opts, Named(sp, hP0{pay[i]}))
			key[i] = 0
			desc += fmt.Sprintf("Named(%s) ", sp)
		case oY:
			sp := hSpellY[vnChoice("spy", len(hSpellY), i)]
			st := []string{"s", "S"}[vnChoice("sty", 2, i)] // subtypes are case-sensitive keys
			opts = append(opts, NamedSubtype(sp, hP2{pay[i]}, st))
			if st == "s" {
				key[i] = 1 // a value under another subtype of the same name sets a different key
			}
			desc += fmt.Sprintf("NamedSubtype(%s,%s) ", sp, st)
		case oZ:
			st := []string{"s", "S"}[vnChoice("stz", 2, i)]
			opts = append(opts, TypedSubtype(hP1{pay[i]}, st))
			if st == "s" {
				key[i] = 2
			}
			desc += fmt.Sprintf("TypedSubtype(P1,%s) ", st)
		case oNilVal:
			switch hPick("nilkind", 4, i) {
			case 0:
				opts = append(opts, Named("ab", nil))
			case 1:
				opts = append(opts, NamedSubtype("cd", nil, "s"))
			case 2:
				opts = append(opts, Typed(nil))
			default:
				opts = append(opts, TypedSubtype(nil, "s"))
			}
			desc += "nil-value "
		case oNilArg:
			opts = append(opts, nil)
			isNilArg[i] = true
			desc += "nil-Arg "
		}
	}
	// withBase: three fixed defaults (one per key) precede the symbolic options, so that
	// every call is satisfiable and short option lists can exercise override-then-default
	base := 0
	var basePay [3]int
	if withBase == 1 {
		base = 3
		for k := 0; k < 3; k++ {
			basePay[k] = vnPayload("base", k)
		}
		opts = append([]Arg{Named("ab", hP0{basePay[0]}), NamedSubtype("cd", hP2{basePay[1]}, "s"), TypedSubtype(hP1{basePay[2]}, "s")}, opts...)
		desc = "[base defaults ab, cd/s, P1/s] " + desc
	}
	// the type-only parameter W is supplied by one multi-value Typed option that also
	// carries nil values (ignored) at a symbolic position; it is always the first default
	wPay := vnPayload("w")
	var wOpt Arg
	wk := 0
	if withBase == 1 {
		wk = hPick("wnil", 4) // the nil positions are explored in the base-default shards
	}
	switch wk {
	case 0:
		wOpt = Typed(hP3{wPay})
	case 1:
		wOpt = Typed(nil, hP3{wPay})
	case 2:
		wOpt = Typed(hP3{wPay}, nil)
	default:
		wOpt = Typed(nil, hP4{wPay}, nil, hP3{wPay})
	}
	opts = append([]Arg{wOpt}, opts...)
	base++
	d := hPick("defaults", m+1)
	e := d + hPick("firstcall", m-d+1)
	vnNote(fmt.Sprintf("field spelling %q; options: %s; defaults [0,%d) first call [%d,%d) second call [%d,%d)", fieldSp, desc, d, d, e, e, m))
	var f *Func
	var err error
	if hGuardPlain(func() { f, err = NewFunc(fn.Interface(), opts[:base+d]...) }) {
		vnAssert(false, "C16.NewFunc-does-not-panic")
		return
	}
	if err != nil {
		nilDefault := false
		for i := 0; i < d; i++ {
			if isNilArg[i] {
				nilDefault = true
			}
		}
		vnAssert(nilDefault, "C16.construction-fails-only-for-a-nil-option")
		vnCover("C16.nil-default-reported")
		return
	}
	for call := 0; call < 2; call++ {
		lo, hi := d, e
		if call == 1 {
			lo, hi = e, m
		}
		ran = 0
		var r Result
		if hGuardPlain(func() { r = f.Call(opts[base+lo : base+hi]...) }) {
			vnAssert(false, "C16.call-does-not-panic")
			return
		}
		vnCover("C16.call-returned")
		// effective option list of this call: defaults ++ this call's options
		last := [3]int{-1, -1, -1}
		if withBase == 1 {
			last = [3]int{-2, -2, -2} // the base default of the key
		}
		nilArg := false
		for i := 0; i < m; i++ {
			if i < d || (i >= lo && i < hi) {
				if isNilArg[i] {
					nilArg = true
				}
				if key[i] >= 0 {
					last[key[i]] = i
				}
			}
		}
		if nilArg {
			vnAssert(r.Err() != nil, "C16.nil-option-yields-error-result")
			vnAssert(ran == 0, "C16.nil-option-target-not-run")
			vnCover("C16.nil-option-checked")
			continue
		}
		if last[0] == -1 || last[1] == -1 || last[2] == -1 {
			vnAssert(r.Err() != nil, "C16.missing-key-fails")
			continue
		}
		want := func(k int) int {
			if last[k] == -2 {
				return basePay[k]
			}
			return pay[last[k]]
		}
		vnAssert(r.Err() == nil, "C16.call-succeeds")
		if r.Err() != nil {
			continue
		}
		vnAssert(ran == 1, "C16.target-ran-once")
		vnAssert(got[0] == want(0), "C16.named-last-occurrence-wins-case-insensitively")
		vnAssert(got[1] == want(1), "C16.named-subtype-last-occurrence-wins-case-insensitively")
		vnAssert(got[2] == want(2), "C16.typed-subtype-last-occurrence-wins")
		vnAssert(got[3] == wPay, "C16.multi-value-typed-option-with-nils-supplies-its-values")
		for k := 0; k < 3; k++ {
			if last[k] < d {
				vnCover("C16.default-applies")
			} else {
				vnCover("C16.call-overrides-or-supplies")
			}
		}
		if call == 1 {
			vnCover("C16.second-call-checked")
		}
		vnCover("C16.values-checked")
	}
}

// HarnessC16Perm — permuting options that set distinct keys changes nothing when
// every parameter has an exactly matching value (conv=1 adds a distractor converter).
func HarnessC16Perm(n, conv int) {
	hOrderSites(0)
	labels := []hLabel{{Name: "a", T: hTP0}, {Name: "b", T: hTP0}, {T: hTP1}, {Name: "c", T: hTP1, Sub: "s"}}[:n]
	w := &hWorld{Target: hFuncSpec{ID: 0, Form: hFormStruct, In: labels}}
	for i, l := range labels {
		w.Vals = append(w.Vals, hVal{L: l, ID: vnPayload("val", i)})
	}
	if conv == 1 {
		w.Convs = []hFuncSpec{{ID: 1, Form: hFormStruct, In: []hLabel{{Name: "b", T: hTP0}}, Out: []hLabel{{Name: "a", T: hTP0}, {T: hTP1}}}}
	}
	args, ok := w.hBuildAll()
	if !ok {
		vnAssume(false)
	}
	// a symbolic permutation of the whole option list
	perm := make([]Arg, 0, len(args))
	rest := append([]Arg{}, args...)
	order := ""
	for len(rest) > 0 {
		i := hPick("pick", len(rest), len(rest))
		perm = append(perm, rest[i])
		order += fmt.Sprint(i)
		rest = append(rest[:i], rest[i+1:]...)
	}
	vnNote(fmt.Sprintf("%s permutation picks %s", w.String(), order))
	r := w.Funcs[0].Call(perm...)
	vnAssert(r.Err() == nil, "C16.permuted-call-succeeds")
	found := false
	for _, ex := range w.Log {
		if ex.Fn != 0 {
			vnAssert(false, "C16.permutation-no-converter-needed")
			continue
		}
		found = true
		for i := range labels {
			if labels[i].Name != "" {
				vnAssert(ex.Recv[i].T == labels[i].T && ex.Recv[i].ID == w.Vals[i].ID, "C16.permutation-injects-the-same-values")
				continue
			}
			// a type-only parameter may receive any supplied value of exactly its type (C03),
			// whatever the option order
			ok := false
			for _, v := range w.Vals {
				if v.L.T == labels[i].T && ex.Recv[i].T == labels[i].T {
					ok = vnOr(ok, ex.Recv[i].ID == v.ID)
				}
			}
			vnAssert(ok, "C16.permutation-injects-a-supplied-value-of-the-type")
		}
	}
	vnAssert(found, "C16.permutation-target-ran")
	vnCover("C16.permutation-checked")
}

// HarnessC16Alias — defaults given at construction apply otherwise, also when the
// slices two functions were constructed from share one backing array with spare
// capacity and one of the functions is called with options of its own.
func HarnessC16Alias(_ int) {
	hOrderSites(0)
	var gotA, gotB int
	fn := func(in struct {
		Struct
		A hP0
		B hP1
	}) {
		gotA, gotB = in.A.ID, in.B.ID
	}
	a0, b1, b7 := vnPayload("a0"), vnPayload("b1"), vnPayload("b7")
	common := make([]Arg, 0, 8)
	common = append(common, Named("a", hP0{a0}))
	// f0's defaults are exactly `common` (len 1, cap 8); fB's defaults extend the same backing array
	f0, err0 := NewFunc(fn, common...)
	fB, err1 := NewFunc(fn, append(common, Named("b", hP1{b1}))...)
	vnAssert(err0 == nil && err1 == nil, "C16.alias.setup")
	if err0 != nil || err1 != nil {
		return
	}
	vnNote("f0 built from common..., fB from append(common, b)...; f0 is called with its own b")
	r := f0.Call(Named("B", hP1{b7}))
	vnAssert(r.Err() == nil && gotA == a0 && gotB == b7, "C16.alias.call-option-supplies-the-missing-key")
	r = fB.Call()
	vnAssert(r.Err() == nil, "C16.alias.second-function-call-succeeds")
	vnAssert(gotA == a0 && gotB == b1, "C16.alias.other-function's-defaults-are-untouched")
	r = f0.Call()
	vnAssert(r.Err() != nil, "C16.alias.f0-still-lacks-b-without-a-call-option")
	vnCover("C16.alias-checked")
}

// HarnessC16Conv — the value supplied for a key is the one injected, also when another
// parameter of the same call has to be produced by a converter whose result ALSO carries
// that key: the parameter a has an exactly matching option (as a default, as a call
// option overriding a default, or twice in the call), the parameter b comes from a
// converter func(P2) (a P0, b P1).
func HarnessC16Conv(_ int) {
	hOrderSites(0)
	var gotA, gotB int
	ran := 0
	fn := func(in struct {
		Struct
		A hP0
		B hP1
	}) {
		ran++
		gotA, gotB = in.A.ID, in.B.ID
	}
	conv := func(in hP2) struct {
		Struct
		A hP0
		B hP1
	} {
		return struct {
			Struct
			A hP0
			B hP1
		}{A: hP0{vnUF("convA", in.ID)}, B: hP1{vnUF("convB", in.ID)}}
	}
	d, c1, c2, y := vnPayload("dflt"), vnPayload("call1"), vnPayload("call2"), vnPayload("y")
	var defaults, call []Arg
	want := 0
	desc := ""
	switch hPick("pattern", 4) {
	case 0: // default only
		defaults = append(defaults, Named("a", hP0{d}))
		want = d
		desc = "a as a construction default"
	case 1: // call option overrides the default (other casing)
		defaults = append(defaults, Named("a", hP0{d}))
		call = append(call, Named("A", hP0{c1}))
		want = c1
		desc = "default a overridden by call option A"
	case 2: // twice in the call: the last wins
		call = append(call, Named("a", hP0{c1}), Named("A", hP0{c2}))
		want = c2
		desc = "a twice among the call options"
	default: // call option only
		call = append(call, Named("a", hP0{c1}))
		want = c1
		desc = "a as a call option"
	}
	call = append(call, Typed(hP2{y}), Converter(conv))
	if vnBool("converterFirst") {
		call = append([]Arg{call[len(call)-1]}, call[:len(call)-1]...)
		desc += ", converter listed first"
	}
	vnNote(desc + "; b must come from a converter whose result also carries a")
	f, err := NewFunc(fn, defaults...)
	vnAssert(err == nil, "C16.conv.setup")
	if err != nil {
		return
	}
	var r Result
	if hGuardPlain(func() { r = f.Call(call...) }) {
		vnAssert(false, "C16.conv.call-does-not-panic")
		return
	}
	vnAssert(r.Err() == nil && ran == 1, "C16.conv.call-succeeds")
	if r.Err() != nil {
		return
	}
	vnAssert(gotB == vnUF("convB", y), "C16.conv.converted-parameter")
	vnAssert(gotA == want, "C16.conv.supplied-value-for-the-key-is-the-one-injected")
	vnCover("C16.conv-checked")
}
