//go:build verif

package argmapper

import "fmt"

// Skeleton worlds: the structure (arity, types, who feeds whom) is fixed and
// deeper than the generic templates can afford; a few label dimensions
// (subtypes, names), the function forms, failure and run-once bits stay symbolic.
// Selected through the template's family argument: fam = 100 + skeleton id.
//
//	0  multi-input converter entered through one input while another, subtyped, typed
//	   input is still unresolved: target(:P3); final(m:P1, :P0/σ1)->:P3; mid(:P0/σ2)->m:P1;
//	   conv(:P2)->:P0/σ3; supplied :P0/σ4 and :P2                         (σ symbolic)
//	1  diamond of two multi-input converters: supplied :P0,:P1; A(:P0,:P1)->:P2;
//	   C(:P2)->:P3; B(:P2,:P3)->:P4; target(:P4)
//	2  one converter with two outputs feeding two parameters: conv(:P0)->(o1, o2) with
//	   symbolic names/subtypes on both sides; target(p1, p2)
//	3  provider and direct value compete: target(:P0/σ, n:P1); provider ()->(x:P0/σ', n':P1);
//	   supplied :P0/σ'' (names n,n' and subtypes symbolic)
//	4  chain of three with a bidirectional pair: :P0 -> :P1 <-> :P2 -> :P3, target(:P3), supplied :P0
//	5  two parameters converted by the same type-only converter from competing named inputs
//	   with subtypes (name affinity across parameters)
//	7  two converters of identical Go type and a hopeless named parameter (C13's converter list)
//	6  deep diamond: supplied :P0; a(:P0)->:P1; b(:P0)->:P2; c(:P1,:P2)->:P3; d(:P3)->:P4;
//	   e(:P3,:P4)->:I' (P2-valued output typed P2 here); target needs e's output
func hSkeleton(id, form, errMode int) *hWorld {
	w := &hWorld{}
	symOnce := errMode&2 != 0
	withErr := errMode&1 != 0
	subs := []string{"", "s", "S"}
	names := []string{"", "a", "b"}
	sub := func(tag string) string { return subs[vnChoice(tag, 3)] }
	name := func(tag string) string { return names[vnChoice(tag, 3)] }
	nameNE := func(tag string) string { return names[1+vnChoice(tag, 2)] }
	pick := func(tag string, ls1, ls2 []hLabel) int {
		f := form
		if form == 9 {
			f = hPick(tag+".form", 4)
		}
		if f == hFormPositional {
			for _, l := range append(append([]hLabel{}, ls1...), ls2...) {
				if l.Name != "" || l.Sub != "" {
					if form == 9 {
						vnAssume(false)
					}
					f = hFormStruct
				}
			}
		}
		return f
	}
	conv := func(id int, in, out []hLabel) {
		if !hDistinctKeys(in) || !hDistinctKeys(out) {
			vnAssume(false)
		}
		c := hFuncSpec{ID: id, In: in, Out: out}
		c.Form = pick(fmt.Sprintf("c%d", id), in, out)
		if withErr {
			c.HasErr = true
			c.Fails = vnBool("fails", id)
		}
		if symOnce && vnBool("once", id) {
			c.Once = true
		}
		w.Convs = append(w.Convs, c)
	}
	target := func(in ...hLabel) {
		if !hDistinctKeys(in) {
			vnAssume(false)
		}
		w.Target = hFuncSpec{ID: 0, In: in}
		w.Target.Form = pick("t", in, nil)
	}
	val := func(l hLabel) {
		w.Vals = append(w.Vals, hVal{L: l, ID: vnPayload("val", len(w.Vals))})
	}
	switch id {
	case 0:
		target(hLabel{T: hTP3})
		conv(1, []hLabel{{Name: "m", T: hTP1}, {T: hTP0, Sub: sub("s1")}}, []hLabel{{T: hTP3}})
		conv(2, []hLabel{{T: hTP0, Sub: sub("s2")}}, []hLabel{{Name: "m", T: hTP1}})
		conv(3, []hLabel{{T: hTP2}}, []hLabel{{T: hTP0, Sub: sub("s3")}})
		val(hLabel{T: hTP0, Sub: sub("s4")})
		val(hLabel{T: hTP2})
	case 1:
		target(hLabel{T: hTP4})
		conv(1, []hLabel{{T: hTP0}, {T: hTP1}}, []hLabel{{T: hTP2}})
		conv(2, []hLabel{{T: hTP2}}, []hLabel{{T: hTP3}})
		conv(3, []hLabel{{T: hTP2}, {T: hTP3}}, []hLabel{{T: hTP4}})
		val(hLabel{T: hTP0})
		val(hLabel{T: hTP1})
	case 2:
		o1 := hLabel{Name: name("o1n"), T: hTP1, Sub: sub("o1s")}
		o2 := hLabel{Name: name("o2n"), T: []int{hTP1, hTP2}[vnChoice("o2t", 2)], Sub: sub("o2s")}
		p1 := hLabel{Name: name("p1n"), T: hTP1, Sub: sub("p1s")}
		p2 := hLabel{Name: name("p2n"), T: o2.T, Sub: sub("p2s")}
		if !hDistinctKeys([]hLabel{o1, o2}) || !hDistinctKeys([]hLabel{p1, p2}) {
			vnAssume(false)
		}
		target(p1, p2)
		conv(1, []hLabel{{T: hTP0}}, []hLabel{o1, o2})
		val(hLabel{T: hTP0})
	case 3:
		n1, n2 := nameNE("n1"), nameNE("n2")
		target(hLabel{T: hTP0, Sub: sub("ps")}, hLabel{Name: n1, T: hTP1})
		conv(1, nil, []hLabel{{Name: nameNE("xn"), T: hTP0, Sub: sub("xs")}, {Name: n2, T: hTP1}})
		val(hLabel{T: hTP0, Sub: sub("vs")})
		if vnBool("withN") {
			val(hLabel{Name: n1, T: hTP1})
		}
	case 4:
		target(hLabel{T: hTP3})
		conv(1, []hLabel{{T: hTP0}}, []hLabel{{T: hTP1}})
		conv(2, []hLabel{{T: hTP1}}, []hLabel{{T: hTP2}})
		conv(3, []hLabel{{T: hTP2}}, []hLabel{{T: hTP1}})
		conv(4, []hLabel{{T: hTP2}}, []hLabel{{T: hTP3}})
		val(hLabel{T: hTP0})
	case 5:
		target(hLabel{Name: "a", T: hTP1}, hLabel{Name: "b", T: hTP1})
		conv(1, []hLabel{{T: hTP0}}, []hLabel{{T: hTP1}})
		val(hLabel{Name: "a", T: hTP0, Sub: sub("as")})
		val(hLabel{Name: "b", T: hTP0, Sub: sub("bs")})
		if vnBool("withC") {
			val(hLabel{Name: "c", T: hTP0})
		}
	case 6:
		target(hLabel{T: hTI})
		conv(1, []hLabel{{T: hTP0}}, []hLabel{{T: hTP1}})
		conv(2, []hLabel{{T: hTP0}}, []hLabel{{T: hTP3}})
		conv(3, []hLabel{{T: hTP1}, {T: hTP3}}, []hLabel{{T: hTP4}})
		conv(4, []hLabel{{T: hTP4}}, []hLabel{{Name: "a", T: hTP1, Sub: "s"}})
		conv(5, []hLabel{{T: hTP4}, {Name: "a", T: hTP1, Sub: "s"}}, []hLabel{{T: hTP2}})
		val(hLabel{T: hTP0})
	case 7:
		// two supplied converters of identical Go type (one graph vertex for the library)
		// next to a hopeless named parameter
		target(hLabel{T: hTP1}, hLabel{Name: nameNE("hn"), T: hTP3})
		conv(1, []hLabel{{T: hTP0}}, []hLabel{{T: hTP1}})
		conv(2, []hLabel{{T: hTP0}}, []hLabel{{T: hTP1}})
		w.Convs[1].Form = w.Convs[0].Form
		val(hLabel{T: hTP0})
	case 9:
		// like skeleton 0 with NAMED subtyped values: same name and type, different subtypes,
		// one of them only needed by a multi-input converter that is entered through its other input
		target(hLabel{T: hTP3})
		conv(1, []hLabel{{Name: "m", T: hTP1}, {Name: "a", T: hTP0, Sub: sub("s1")}}, []hLabel{{T: hTP3}})
		conv(2, []hLabel{{Name: "a", T: hTP0, Sub: sub("s2")}}, []hLabel{{Name: "m", T: hTP1}})
		if vnBool("producerIsProvider") {
			conv(3, nil, []hLabel{{Name: "a", T: hTP0, Sub: sub("s3")}})
		} else {
			// a longer route to the second a-value, so that the multi-input converter is
			// entered through its other input
			conv(3, []hLabel{{T: hTP2}}, []hLabel{{Name: "a", T: hTP0, Sub: sub("s3")}})
			val(hLabel{T: hTP2})
		}
		val(hLabel{Name: "a", T: hTP0, Sub: sub("s4")})
	case 8:
		// a named value converted to the same name and type with a subtype, the plain named
		// value itself produced by another converter: name-discounted edges form a loop of
		// negative total weight (a/T -> conv -> a/T/s -> a/T)
		st := subs[1+vnChoice("loopsub", 2)]
		target(hLabel{Name: "a", T: hTP0, Sub: st})
		conv(1, []hLabel{{Name: "a", T: hTP0}}, []hLabel{{Name: "a", T: hTP0, Sub: st}})
		conv(2, []hLabel{{T: hTP1}}, []hLabel{{Name: "a", T: hTP0}})
		val(hLabel{T: hTP1})
		if vnBool("withDirect") {
			val(hLabel{Name: "a", T: hTP0, Sub: sub("ds")})
		}
	default:
		vnAssume(false)
	}
	return w
}
