//go:build verif

package argmapper

import (
	"fmt"
	"reflect"
	"strings"
)

// C15 — value sets and built functions round-trip values faithfully.

var hC15Names = []string{"", "a", "Bb"}

func hC15Label(tag string, i int) hLabel {
	l := hLabel{}
	l.Name = hC15Names[vnChoice(tag+".n", 3, i)]
	l.T = []int{hTP0, hTP1, hTP2}[vnChoice(tag+".t", 3, i)]
	if vnBool(tag+".s", i) {
		l.Sub = "s"
	}
	return l
}

func hLower(l hLabel) hLabel { return hLabel{Name: strings.ToLower(l.Name), T: l.T, Sub: l.Sub} }

func hValueList(ls []hLabel) []Value {
	var vs []Value
	for _, l := range ls {
		vs = append(vs, Value{Name: l.Name, Type: hType(l.T), Subtype: l.Sub})
	}
	return vs
}

// HarnessC15Set — NewValueSet reports its values back, finds them, and
// FromSignature(SignatureValues()) restores every value.
func HarnessC15Set(k int) {
	hOrderSites(0)
	var ls []hLabel
	for i := 0; i < k; i++ {
		ls = append(ls, hC15Label("v", i))
	}
	// distinct values: no repeated name, no repeated type among type-only values
	for i := range ls {
		for j := i + 1; j < len(ls); j++ {
			if ls[i].Name != "" && strings.ToLower(ls[i].Name) == strings.ToLower(ls[j].Name) {
				vnAssume(false)
			}
			if ls[i].Name == "" && ls[j].Name == "" && ls[i].T == ls[j].T {
				vnAssume(false)
			}
		}
	}
	vnNote(fmt.Sprintf("value list %v", ls))
	vs, err := NewValueSet(hValueList(ls))
	vnAssert(err == nil, "C15.set-accepted")
	if err != nil {
		return
	}
	got := vs.Values()
	vnAssert(len(got) == k, "C15.values-count")
	if len(got) != k {
		return
	}
	for i, l := range ls {
		w := hLower(l)
		g := got[i]
		vnAssert(g.Name == w.Name && g.Type == hType(w.T) && g.Subtype == w.Sub, "C15.values-in-order-lowercased")
		if w.Name != "" {
			n := vs.Named(w.Name)
			vnAssert(n != nil && n.Type == hType(w.T) && n.Subtype == w.Sub, "C15.Named-finds-value")
		} else {
			t := vs.Typed(hType(w.T))
			vnAssert(t != nil && t.Name == "" && t.Subtype == w.Sub, "C15.Typed-finds-value")
		}
		unique := true
		for j, o := range ls {
			if j != i && o.T == l.T && o.Sub == l.Sub {
				unique = false
			}
		}
		if unique {
			ts := vs.TypedSubtype(hType(w.T), w.Sub)
			vnAssert(ts != nil && ts.Name == w.Name, "C15.TypedSubtype-finds-value-when-unique")
		}
	}
	// load payloads, render as a signature, load into a second set
	pay := make([]int, k)
	for i, l := range ls {
		pay[i] = vnPayload("pay", i)
		var dst *Value
		if l.Name != "" {
			dst = vs.Named(strings.ToLower(l.Name))
		} else {
			dst = vs.Typed(hType(l.T))
		}
		if dst == nil {
			return
		}
		dst.Value = reflect.ValueOf(hMk(l.T, pay[i]))
	}
	sig := vs.SignatureValues()
	st := vs.Signature()
	vnAssert(len(sig) == len(st), "C15.signature-values-match-signature")
	for i := range sig {
		if i < len(st) {
			vnAssert(sig[i].Type() == st[i], "C15.signature-value-types")
		}
	}
	vs2, _ := NewValueSet(hValueList(ls))
	if k > 0 {
		vnAssert(vs2.FromSignature(sig) == nil, "C15.FromSignature-ok")
		for i, v := range vs2.Values() {
			vnAssert(v.Value.IsValid(), "C15.value-restored")
			if v.Value.IsValid() {
				t, id := hUnpack(v.Value.Interface())
				vnAssert(t == ls[i].T && id == pay[i], "C15.signature-round-trip-restores-every-value")
			}
		}
	}
	// Args() renders the values as options that satisfy a consumer of the same set
	vnCover("C15.set-checked")
}

// HarnessC15Built — a built function hands its callback exactly the injected
// values and delivers exactly its outputs (or error), like an ordinary function.
//
//	nIn, nOut  sizes of the input and output sets
//	calls      number of consecutive calls on the same built function
//	consumer   1: the outputs are also consumed by a downstream target through Converter
func HarnessC15Built(nIn, nOut, calls, consumer int) {
	hOrderSites(0)
	fam := 3
	var in, out []hLabel
	for i := 0; i < nIn; i++ {
		l := hSymLabel(fam, fmt.Sprintf("in%d", i), true)
		in = append(in, l)
	}
	for j := 0; j < nOut; j++ {
		l := hSymLabel(fam, fmt.Sprintf("out%d", j), true)
		out = append(out, l)
	}
	if !hDistinct(in) || !hDistinct(out) || !hUnambiguous(in) || !hUnambiguous(out) {
		vnAssume(false)
	}
	// keep (type,subtype) unique so TypedSubtype addresses one output
	for i := range out {
		for j := i + 1; j < len(out); j++ {
			if out[i].T == out[j].T && out[i].Sub == out[j].Sub {
				vnAssume(false)
			}
		}
	}
	fails := false
	w := &hWorld{}
	w.FailFn = func(id int) bool { return fails }
	spec := hFuncSpec{ID: 1, Form: hFormBuilt, In: in, Out: out, HasErr: true}
	twin := hFuncSpec{ID: 2, Form: hFormStruct, In: in, Out: out, HasErr: true}
	w.Convs = []hFuncSpec{spec, twin}
	w.Errs = []error{nil, fmt.Errorf("built failed"), fmt.Errorf("twin failed")}
	vnNote(fmt.Sprintf("built%s calls=%d consumer=%d (failure symbolic per call)", hSpecString(spec), calls, consumer))
	if nOut == 0 && vnBool("emptySetNotNil") {
		w.EmptySetNotNil = true
	}
	var bopts []Arg
	if vnBool("withFuncName") {
		bopts = append(bopts, FuncName("built-function"))
	}
	bf, err := w.hBuild(spec, bopts...)
	vnAssert(err == nil, "C15.built-accepted")
	tf, err2 := w.hBuild(twin)
	if err != nil || err2 != nil {
		return
	}
	// introspection of the built function equals the ordinary twin's
	hCheckSet(bf.Input(), in, "C15.built-input")
	hCheckSet(bf.Output(), out, "C15.built-output")
	for c := 0; c < calls; c++ {
		// whether the callback fails is chosen symbolically for every call
		fails = false
		if vnBool("fails", c) {
			fails = true
		}
		vnNoteAppend(fmt.Sprintf(" call%d.fails=%v", c, fails))
		var args []Arg
		pay := make([]int, nIn)
		omit := -1
		if nIn > 0 && c > 0 && vnBool("omit", c) {
			omit = hPick("omitWhich", nIn, c) // this call leaves one input out: it must fail, not reuse an earlier value
		}
		for i, l := range in {
			pay[i] = vnPayload("arg", c, i)
			if i != omit {
				args = append(args, NamedSubtype(l.Name, hMk(l.T, pay[i]), l.Sub))
			}
		}
		w.Log = nil
		r := bf.Call(args...)
		if omit >= 0 {
			vnAssert(r.Err() != nil, "C15.call-without-an-input-fails")
			vnAssert(len(w.Log) == 0, "C15.callback-not-run-without-its-input")
			vnCover("C15.omitted-input-checked")
			continue
		}
		vnAssert(len(w.Log) == 1 && w.Log[0].Fn == 1, "C15.callback-ran-once")
		if len(w.Log) != 1 {
			return
		}
		for i := range in {
			vnAssert(w.Log[0].Recv[i].T == in[i].T && w.Log[0].Recv[i].ID == pay[i], "C15.callback-sees-exactly-the-injected-values")
		}
		bOuts := w.Log[0].Out
		w.Log = nil
		r2 := tf.Call(args...)
		if fails {
			vnAssert(r.Err() == w.Errs[1], "C15.callback-error-delivered")
			vnAssert(r2.Err() == w.Errs[2], "C15.twin-error-delivered")
			vnCover("C15.built-error-path")
			continue
		}
		vnAssert(r.Err() == nil, "C15.built-call-succeeds")
		vnAssert(r2.Err() == nil, "C15.twin-call-succeeds")
		if r.Err() != nil || r2.Err() != nil {
			return
		}
		// the caller sees exactly the outputs the callback produced
		if nOut > 0 {
			vnAssert(r.Len() == 1 && r2.Len() == 1, "C15.one-struct-result")
			if r.Len() == 1 && r2.Len() == 1 {
				s1, s2 := reflect.ValueOf(r.Out(0)), reflect.ValueOf(r2.Out(0))
				for j := range out {
					t1, id1 := hUnpack(s1.Field(j + 1).Interface())
					t2, id2 := hUnpack(s2.Field(j + 1).Interface())
					vnAssert(t1 == bOuts[j].L.T && id1 == bOuts[j].ID, "C15.caller-sees-exactly-the-callback-outputs")
					// the twin computes the same uninterpreted function of the same inputs, under another symbol
					vnAssert(t2 == t1, "C15.twin-output-type")
					_ = id2
				}
			}
		} else if w.EmptySetNotNil {
			vnAssert(r.Len() == 1, "C15.empty-list-output-set-is-one-marker-struct")
		} else {
			vnAssert(r.Len() == 0, "C15.no-outputs")
		}
		vnCover("C15.built-call-checked")
	}
	fails = false
	if consumer == 1 && nOut > 0 {
		// downstream consumer of the built function's outputs
		cons := hFuncSpec{ID: 3, Form: hFormStruct, In: out}
		w.Convs = append(w.Convs, cons)
		w.Errs = append(w.Errs, nil)
		cf, err := w.hBuild(cons)
		if err != nil {
			return
		}
		var args []Arg
		for i, l := range in {
			args = append(args, NamedSubtype(l.Name, hMk(l.T, vnPayload("carg", i)), l.Sub))
		}
		// an input that already matches a consumer parameter would be used directly (C03)
		for _, o := range out {
			for _, i := range in {
				if hCompat(i, o) {
					vnAssume(false)
				}
			}
		}
		w.Log = nil
		r := cf.Call(append(args, ConverterFunc(bf))...)
		vnAssert(r.Err() == nil, "C15.consumer-call-succeeds")
		if r.Err() == nil && len(w.Log) >= 2 {
			// the library runs a converter once per parameter that needs it; every run
			// computes the same outputs from the same inputs
			last := w.Log[len(w.Log)-1]
			vnAssert(w.Log[0].Fn == 1 && last.Fn == 3, "C15.built-then-consumer")
			if w.Log[0].Fn == 1 && last.Fn == 3 {
				for j := range out {
					vnAssert(last.Recv[j].T == w.Log[0].Out[j].L.T && last.Recv[j].ID == w.Log[0].Out[j].ID, "C15.downstream-consumer-receives-the-outputs-unchanged")
				}
			}
			vnCover("C15.consumer-checked")
		} else if r.Err() == nil {
			vnAssert(false, "C15.built-then-consumer")
		}
	}
}

// HarnessC15Out — a built converter whose output set mixes a named and a type-only
// value of the same type (declaration order symbolic): a downstream consumer that can
// only be fed by the type-only output must receive exactly that output.
func HarnessC15Out(form int) {
	hOrderSites(0)
	w := &hWorld{}
	named := hLabel{Name: "x", T: hTP1}
	typed := hLabel{T: hTP1}
	consumer := hLabel{Name: "y", T: hTP1}
	if vnBool("twoTypeOnly") {
		// two type-only outputs of one type, one of them subtyped; the consumer asks for
		// another subtype, which only the un-subtyped output may satisfy
		named = hLabel{T: hTP1, Sub: "s"}
		consumer = hLabel{T: hTP1, Sub: "t"}
	}
	outs := []hLabel{named, typed}
	typedIdx := 1
	if vnBool("typedFirst") {
		outs = []hLabel{typed, named}
		typedIdx = 0
	}
	w.Convs = []hFuncSpec{{ID: 1, Form: form, In: []hLabel{{T: hTP0}}, Out: outs}}
	// the consumer's parameter matches the un-subtyped type-only output only (typed -> named
	// without subtypes, or typed -> typed of another subtype), never the other output
	w.Target = hFuncSpec{ID: 0, Form: hFormStruct, In: []hLabel{consumer}}
	w.Vals = []hVal{{L: hLabel{T: hTP0}, ID: vnPayload("v")}}
	vnNote(w.String())
	r, built, panicked, _ := w.hCall()
	if !built || panicked {
		vnAssume(false)
	}
	vnAssert(r.Err() == nil, "C15.out.consumer-call-succeeds")
	if r.Err() != nil {
		return
	}
	var conv, tgt *hExec
	for i := range w.Log {
		if w.Log[i].Fn == 1 && conv == nil {
			conv = &w.Log[i]
		}
		if w.Log[i].Fn == 0 {
			tgt = &w.Log[i]
		}
	}
	vnAssert(conv != nil && tgt != nil, "C15.out.both-ran")
	if conv == nil || tgt == nil {
		return
	}
	vnAssert(tgt.Recv[0].ID == conv.Out[typedIdx].ID, "C15.out.consumer-receives-the-type-only-output-unchanged")
	vnCover("C15.out-checked")
}
