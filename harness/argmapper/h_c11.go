//go:build verif

package argmapper

import "fmt"

// HarnessC11 — a run-once function executes at most once over any sequence of
// calls; every later use sees the outputs (or error) of that first execution.
//
// Sequential histories: nOps operations drawn symbolically from
//
//	0 Call on target 1 (needs the run-once converter's output a:P1 and, symbolically, also :P1)
//	1 Call on target 2 (needs :P2, produced from the run-once converter's output by a second converter)
//	2 Convert to P1
//	3 Redefine of target 1
//
// each with its own (fresh, symbolic) input payload. The run-once converter
// P0 -> (a:P1, :P1) fails symbolically on its first execution.
func HarnessC11(nOps, onceForm int) {
	hOrderSites(0)
	w := &hWorld{}
	fails := vnBool("onceFails")
	w.Convs = []hFuncSpec{
		{ID: 1, Form: onceForm, In: []hLabel{{T: hTP0}}, Out: []hLabel{{Name: "a", T: hTP1}, {T: hTP1}}, HasErr: true, Fails: fails, Once: true},
		{ID: 2, Form: hFormStruct, In: []hLabel{{Name: "a", T: hTP1}}, Out: []hLabel{{T: hTP2}}},
	}
	t1 := hFuncSpec{ID: 0, Form: hFormStruct, In: []hLabel{{Name: "a", T: hTP1}, {T: hTP1}}}
	t2 := hFuncSpec{ID: 3, Form: hFormStruct, In: []hLabel{{T: hTP2}}}
	w.Target = t1
	w.Convs = append(w.Convs, t2) // built alongside; used as a second target
	_, ok := w.hBuildAll()
	if !ok {
		vnAssume(false)
	}
	target1, target2 := w.Funcs[0], w.Funcs[3]
	once, conv2 := w.Funcs[1], w.Funcs[2]
	vnOnDivergence("", "")
	desc := ""
	executions := 0
	var firstOut []hVal
	firstErr := false
	for op := 0; op < nOps; op++ {
		x := vnPayload("x", op)
		args := []Arg{Typed(hP0{x}), ConverterFunc(once, conv2)}
		kind := hPick("op", 4, op)
		desc += fmt.Sprintf("%d ", kind)
		w.Log = nil
		var err error
		switch kind {
		case 0:
			r := target1.Call(args...)
			err = r.Err()
		case 1:
			r := target2.Call(args...)
			err = r.Err()
		case 2:
			_, err = Convert(hType(hTP1), args...)
		case 3:
			_, _ = target1.Redefine(args...)
			vnAssert(len(w.Log) == 0, "C11.redefine-does-not-execute-the-run-once-function")
			continue
		}
		for _, ex := range w.Log {
			if ex.Fn == 1 {
				executions++
				if executions == 1 {
					firstOut = ex.Out
					firstErr = ex.Err
					vnAssert(ex.Recv[0].ID == x, "C11.first-execution-sees-its-call's-argument")
				}
			}
		}
		vnAssert(executions <= 1, "C11.run-once-body-executes-at-most-once")
		if executions == 0 {
			vnAssert(false, "C11.operation-needed-the-run-once-function")
			continue
		}
		// every use observes the first execution's outputs or error
		if firstErr {
			vnAssert(err == w.Errs[1], "C11.later-uses-see-the-first-error")
			for _, ex := range w.Log {
				vnAssert(ex.Fn == 1, "C11.nothing-runs-after-the-cached-error")
			}
			vnCover("C11.cached-error-checked")
			continue
		}
		vnAssert(err == nil, "C11.use-succeeds")
		for _, ex := range w.Log {
			switch ex.Fn {
			case 0: // target 1 received a:P1 and :P1
				vnAssert(ex.Recv[0].ID == firstOut[0].ID, "C11.consumer-sees-first-execution-output")
				ok := vnOr(ex.Recv[1].ID == firstOut[0].ID, ex.Recv[1].ID == firstOut[1].ID)
				vnAssert(ok, "C11.typed-consumer-sees-first-execution-output")
			case 2: // the second converter received a:P1
				vnAssert(ex.Recv[0].ID == firstOut[0].ID, "C11.downstream-converter-sees-first-execution-output")
			}
		}
		if op > 0 {
			vnCover("C11.later-use-checked")
		}
	}
	vnNote(fmt.Sprintf("run-once form %s, fails=%v, history: %s", hFormNames[onceForm], fails, desc))
	vnCover("C11.history-checked")
}

// HarnessC11Within — repeated needs within a single call: two parameters of the
// target are both produced by the same run-once converter (through two paths).
func HarnessC11Within(onceForm int) {
	hOrderSites(0)
	w := &hWorld{}
	w.Convs = []hFuncSpec{
		{ID: 1, Form: onceForm, In: []hLabel{{T: hTP0}}, Out: []hLabel{{Name: "a", T: hTP1}, {Name: "b", T: hTP2}}, Once: true},
	}
	w.Target = hFuncSpec{ID: 0, Form: hFormStruct, In: []hLabel{{Name: "a", T: hTP1}, {Name: "b", T: hTP2}}}
	w.Vals = []hVal{{L: hLabel{T: hTP0}, ID: vnPayload("x")}}
	vnNote(w.String())
	r, built, panicked, _ := w.hCall()
	if !built || panicked {
		vnAssume(false)
	}
	vnAssert(r.Err() == nil, "C11.call-succeeds")
	n := 0
	for _, ex := range w.Log {
		if ex.Fn == 1 {
			n++
		}
	}
	vnAssert(n == 1, "C11.two-needs-in-one-call-execute-the-body-once")
	for _, ex := range w.Log {
		if ex.Fn == 0 && len(w.Log) > 0 && w.Log[0].Fn == 1 {
			vnAssert(ex.Recv[0].ID == w.Log[0].Out[0].ID && ex.Recv[1].ID == w.Log[0].Out[1].ID, "C11.both-needs-see-the-single-execution")
		}
	}
	// the same converter without the run-once option runs once per need
	w.Convs[0].Once = false
	w.Log = nil
	r2, _, _, _ := w.hCall()
	if r2.Err() == nil {
		vnCover("C11.within-call-checked")
	}
}

// HarnessC11Par — the concurrent clause: two goroutines each perform one call that
// needs the same run-once converter. Interleavings are explored by vnPar (handover
// at mutex operations and at accesses to the shared Func's assigned fields).
//
//	kind 0: both call the same target; 1: one calls the target, the other Convert
func HarnessC11Par(onceForm, kind, maxSwitches int) {
	hOrderSites(0)
	w := &hWorld{}
	w.Convs = []hFuncSpec{
		{ID: 1, Form: onceForm, In: []hLabel{{T: hTP0}}, Out: []hLabel{{Name: "a", T: hTP1}}, Once: true},
	}
	w.Target = hFuncSpec{ID: 0, Form: hFormStruct, In: []hLabel{{Name: "a", T: hTP1}}}
	_, ok := w.hBuildAll()
	if !ok {
		vnAssume(false)
	}
	target, once := w.Funcs[0], w.Funcs[1]
	x1, x2 := vnPayload("x", 1), vnPayload("x", 2)
	vnNote(fmt.Sprintf("two goroutines, run-once converter in %s form, kind %d, <=%d context switches", hFormNames[onceForm], kind, maxSwitches))
	vnOnDivergence("", "")
	vnEpoch(target, once)
	var e1, e2 error
	vnPar(func() {
		r := target.Call(Typed(hP0{x1}), ConverterFunc(once))
		e1 = r.Err()
	}, func() {
		if kind == 0 {
			r := target.Call(Typed(hP0{x2}), ConverterFunc(once))
			e2 = r.Err()
		} else {
			_, e2 = Convert(hType(hTP1), Typed(hP0{x2}), ConverterFunc(once))
		}
	}, maxSwitches)
	vnAssert(e1 == nil && e2 == nil, "C11.par.both-calls-succeed")
	n := 0
	var first hVal
	for _, ex := range w.Log {
		if ex.Fn == 1 {
			n++
			if n == 1 {
				first = ex.Out[0]
			}
		}
	}
	vnAssert(n == 1, "C11.par.run-once-body-executes-exactly-once-under-every-interleaving")
	for _, ex := range w.Log {
		if ex.Fn == 0 {
			vnAssert(ex.Recv[0].ID == first.ID, "C11.par.every-consumer-sees-the-single-execution")
		}
	}
	vnCover("C11.par-checked")
}

// HarnessC11Target — the run-once function is itself the TARGET of several
// direct calls with different arguments (a side-effect-only initialiser has no
// outputs at all; others return 1–2 values and/or an error). Between the calls
// the result is, symbolically, handed to the public value-set accessors
// (Output().FromResult), which must not disturb what later calls observe.
//
//	form  hFormPositional / hFormStruct / hFormPtrStruct / hFormBuilt
//	nOut  0, 1 or 2 outputs;  hasErr 1: the function also returns an error (symbolically non-nil)
func HarnessC11Target(form, nOut, hasErr int) {
	hOrderSites(0)
	w := &hWorld{}
	outs := []hLabel{{Name: "a", T: hTP1}, {T: hTP2}}[:nOut]
	if form == hFormPositional {
		outs = []hLabel{{T: hTP1}, {T: hTP2}}[:nOut]
	}
	fails := false
	if hasErr == 1 {
		fails = vnBool("fails")
	}
	w.Target = hFuncSpec{ID: 0, Form: form, In: []hLabel{{T: hTP0}}, Out: outs, HasErr: hasErr == 1, Fails: fails, Once: true}
	if _, ok := w.hBuildAll(); !ok {
		vnAssume(false)
	}
	f := w.Funcs[0]
	vnNote(fmt.Sprintf("run-once TARGET in %s form with %d outputs, error result %d, fails=%v; three direct calls", hFormNames[form], nOut, hasErr, fails))
	vnOnDivergence("", "")
	executions := 0
	var first []hVal
	for call := 0; call < 3; call++ {
		x := vnPayload("x", call)
		var r Result
		if hGuardPlain(func() { r = f.Call(Typed(hP0{x})) }) {
			vnAssert(false, "C11.target.call-does-not-panic")
			return
		}
		executions = 0
		for _, ex := range w.Log {
			if ex.Fn == 0 {
				executions++
			}
		}
		vnAssert(executions == 1, "C11.target.body-executed-exactly-once-over-all-calls")
		if executions != 1 {
			return
		}
		if fails {
			vnAssert(r.Err() == w.Errs[0], "C11.target.every-call-sees-the-first-error")
			continue
		}
		vnAssert(r.Err() == nil, "C11.target.call-succeeds")
		if r.Err() != nil {
			return
		}
		if call == 0 {
			first = w.Log[0].Out
			vnAssert(w.Log[0].Recv[0].ID == vnPayload("x", 0), "C11.target.first-execution-sees-the-first-call's-argument")
		}
		ids := hResultIDs(r)
		vnAssert(len(ids) == nOut, "C11.target.result-shape")
		if len(ids) != nOut {
			return
		}
		for j := range ids {
			vnAssert(ids[j].T == first[j].L.T && ids[j].ID == first[j].ID, "C11.target.every-call-returns-the-first-execution's-outputs")
		}
		if nOut > 0 && vnBool("useAccessors", call) {
			hGuardPlain(func() {
				_ = f.Output().FromResult(r)
				_ = f.Output().Values()
			})
		}
	}
	vnCover("C11.target-checked")
}
