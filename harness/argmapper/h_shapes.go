//go:build verif

package argmapper

import (
	"errors"
	"fmt"
	"reflect"
)

// Statically declared parameter / result structs of unusual but legal shapes
// (reflect.StructOf cannot build them: an embedded type with methods must be the
// first field there). The resolver properties must hold for them as well.

type hMLIn struct { // marker last
	X hP0 `argmapper:",typeOnly"`
	Struct
}

type hMLOut struct { // marker in the middle
	Y hP1 `argmapper:",typeOnly"`
	Struct
	Z hP2 `argmapper:"z"`
}

// an unexported embedded type next to the marker is NOT a parameter (it cannot be set)
type hhidden struct{ N int }

type hWithHidden struct {
	Struct
	hhidden
	A hP0
}

// HarnessShapes — resolver behaviour on functions whose structs have unusual shapes.
//
//	kind 0 (C05): a converter whose input struct carries the marker last and whose result
//	              struct carries it in the middle is the only derivation path: the call succeeds
//	              and every function receives the right value
//	kind 1 (C02): a target whose struct reaches the marker only through an embedded struct is
//	              NOT a parameter struct; loose values matching its field names do not satisfy it
//	kind 3 (C06): a parameter struct with an unexported embedded type: it is no parameter, and
//	              a supplied value of that type is simply unused — Call and Redefine do not panic
//	kind 4 (C06): a target whose last result is of a CONCRETE error type: the function returned
//	              by Redefine gets its own error result; a failing inner call is reported, not a panic
//	kind 2 (C13): an embedded exported type next to the marker is a named parameter; when
//	              nothing supplies it the call is refused and the error names exactly it
func HarnessShapes(kind int) {
	hOrderSites(0)
	x := vnPayload("x")
	vnOnDivergence("", "")
	switch kind {
	case 0:
		ranConv, ranTarget := 0, 0
		var gotX, gotY, gotZ int
		conv, err1 := NewFunc(func(in hMLIn) (hMLOut, error) {
			ranConv++
			gotX = in.X.ID
			return hMLOut{Y: hP1{vnUF("shapeY", in.X.ID)}, Z: hP2{vnUF("shapeZ", in.X.ID)}}, nil
		})
		target, err2 := NewFunc(func(in *hMLOut) hP0 {
			ranTarget++
			gotY, gotZ = in.Y.ID, in.Z.ID
			return hP0{in.Y.ID}
		})
		vnNote("marker-last input struct / marker-in-the-middle result struct on the only derivation path")
		vnAssert(err1 == nil && err2 == nil, "C05.shapes.functions-accepted")
		if err1 != nil || err2 != nil {
			return
		}
		var r Result
		if hGuardPlain(func() { r = target.Call(Typed(hP0{x}), ConverterFunc(conv)) }) {
			vnAssert(false, "C05.shapes.call-does-not-panic")
			return
		}
		vnAssert(r.Err() == nil, "C05.shapes.derivable-call-succeeds")
		// (a converter is executed once per parameter that needs it)
		vnAssert(ranConv >= 1 && ranTarget == 1, "C05.shapes.converter-and-target-executed")
		vnAssert(gotX == x, "C05.shapes.converter-received-the-supplied-value")
		vnAssert(gotY == vnUF("shapeY", x) && gotZ == vnUF("shapeZ", x), "C05.shapes.target-received-the-converter's-outputs")
		// the same through Redefine with an input filter admitting only P0: the redefined function needs exactly the P0 value
		nf, err := target.Redefine(ConverterFunc(conv), FilterInput(FilterType(hType(hTP0))))
		vnAssert(err == nil && nf != nil, "C05.shapes.redefine-succeeds")
		if err == nil && nf != nil {
			vs := nf.Input().Values()
			vnAssert(len(vs) == 1 && vs[0].Name == "" && vs[0].Type == hType(hTP0), "C05.shapes.redefined-function-needs-the-P0-value")
		}
		vnCover("C05.shapes-checked")
	case 1:
		ran := 0
		target, err := NewFunc(func(in hNested) hP0 { ran++; return in.A })
		vnNote("target parameter struct reaches the marker only through an embedded struct (not a parameter struct)")
		vnAssert(err == nil, "C02.shapes.function-accepted")
		if err != nil {
			return
		}
		var r Result
		if hGuardPlain(func() { r = target.Call(Named("a", hP0{x}), Named("b", hP1{x}), Typed(hP0{x}), Typed(hP1{x})) }) {
			vnAssert(false, "C02.shapes.call-does-not-panic")
			return
		}
		vnAssert(r.Err() != nil, "C02.shapes.loose-field-values-do-not-satisfy-a-non-parameter-struct")
		vnAssert(ran == 0, "C02.shapes.target-not-executed")
		var un *ErrArgumentUnsatisfied
		vnAssert(r.Err() == nil || errors.As(r.Err(), &un), "C02.shapes.dedicated-error-type")
		// the whole struct value, supplied as such, satisfies it
		var got hNested
		t2, _ := NewFunc(func(in hNested) hP0 { ran++; got = in; return in.A })
		r = t2.Call(Typed(hNested{hCommon: hCommon{A: hP0{x}}, B: hP1{x + 1}}))
		vnAssert(r.Err() == nil && ran == 1 && got.A.ID == x && got.B.ID == x+1, "C02.shapes.the-whole-struct-value-is-the-parameter")
		vnCover("C02.shapes-checked")
	case 2:
		ran := 0
		target, err := NewFunc(func(in hWithEmbedded) hP0 { ran++; return in.A })
		vnNote("embedded exported type next to the marker is a named parameter (hbase)")
		vnAssert(err == nil, "C13.shapes.function-accepted")
		if err != nil {
			return
		}
		var r Result
		if hGuardPlain(func() { r = target.Call(Named("a", hP0{x})) }) {
			vnAssert(false, "C13.shapes.call-does-not-panic")
			return
		}
		vnAssert(r.Err() != nil && ran == 0, "C13.shapes.missing-embedded-parameter-refuses-the-call")
		var un *ErrArgumentUnsatisfied
		if r.Err() != nil && errors.As(r.Err(), &un) {
			vnAssert(len(un.Args) == 1 && un.Args[0].Name == "hbase", "C13.shapes.error-names-exactly-the-embedded-parameter")
		} else {
			vnAssert(false, "C13.shapes.dedicated-error-type")
		}
		var got hWithEmbedded
		t2, _ := NewFunc(func(in hWithEmbedded) hP0 { got = in; return in.A })
		r = t2.Call(Named("a", hP0{x}), Named("hbase", HBase{N: 7}))
		vnAssert(r.Err() == nil && got.A.ID == x && got.N == 7, "C13.shapes.supplied-embedded-parameter-is-injected")
		vnCover("C13.shapes-checked")
	case 3:
		ran := 0
		var got hWithHidden
		target, err := NewFunc(func(in hWithHidden) hP0 { ran++; got = in; return in.A })
		vnNote("parameter struct with an unexported embedded type; a value of that type is supplied as well")
		vnAssert(err == nil, "C06.shapes.function-accepted")
		if err != nil {
			return
		}
		vs := target.Input().Values()
		vnAssert(len(vs) == 1 && vs[0].Name == "a", "C06.shapes.unexported-embedded-type-is-no-parameter")
		var r Result
		if hGuardPlain(func() { r = target.Call(Named("a", hP0{x}), Typed(hhidden{N: 3}), Named("hhidden", hhidden{N: 4})) }) {
			vnAssert(false, "C06.shapes.call-does-not-panic")
			return
		}
		vnAssert(r.Err() == nil && ran == 1 && got.A.ID == x && got.N == 0, "C06.shapes.call-succeeds-and-leaves-the-unexported-field-alone")
		conv, _ := NewFunc(func(in hWithHidden) hP1 { return hP1{in.A.ID} })
		t2, _ := NewFunc(func(in hP1) hP2 { return hP2{in.ID} })
		if hGuardPlain(func() {
			_, _ = t2.Redefine(ConverterFunc(conv), FilterInput(FilterType(hType(hTP0))))
			_, _ = t2.Redefine(ConverterFunc(conv), Typed(hhidden{N: 5}))
		}) {
			vnAssert(false, "C06.shapes.redefine-does-not-panic")
			return
		}
		vnCover("C06.shapes-checked")
	case 4:
		fails := vnBool("convFails")
		convErr := fmt.Errorf("conversion failed")
		conv, err1 := NewFunc(func(in hP0) (hP1, error) {
			if fails {
				return hP1{}, convErr
			}
			return hP1{in.ID}, nil
		})
		target, err2 := NewFunc(func(in hP1) *hErrT { return &hErrT{ID: in.ID} })
		vnNote(fmt.Sprintf("target whose only result has a concrete error type, redefined over a converter (fails=%v)", fails))
		vnAssert(err1 == nil && err2 == nil, "C06.shapes.functions-accepted")
		if err1 != nil || err2 != nil {
			return
		}
		var nf *Func
		var err error
		if hGuardPlain(func() { nf, err = target.Redefine(ConverterFunc(conv), FilterInput(FilterType(hType(hTP0)))) }) {
			vnAssert(false, "C06.shapes.redefine-does-not-panic")
			return
		}
		vnAssert(err == nil && nf != nil, "C06.shapes.redefine-succeeds")
		if err != nil || nf == nil {
			return
		}
		var r Result
		if hGuardPlain(func() { r = nf.Call(Typed(hP0{x})) }) {
			vnAssert(false, "C06.shapes.redefined-call-does-not-panic")
			return
		}
		if fails {
			vnAssert(r.Err() == convErr, "C06.shapes.redefined-call-reports-the-converter's-error")
		} else {
			vnAssert(r.Err() == nil && r.Len() == 1, "C06.shapes.redefined-call-succeeds")
			if r.Err() == nil && r.Len() == 1 {
				e, ok := r.Out(0).(*hErrT)
				vnAssert(ok && e != nil && e.ID == x, "C06.shapes.concrete-error-typed-result-is-an-ordinary-output")
			}
		}
		vnCover("C06.shapes-checked")
	}
	_ = fmt.Sprint
}

// HarnessC05Gen — chaining is complete when the converters come from a generator
// (ConverterGen): the generator is name-sensitive — for a named P0 value n it returns a
// converter n:P0 -> n:P1, for anything else nothing. Two (or three) P0 values with
// different names are supplied; the target needs, symbolically, some of the n:P1. Every
// needed parameter is derivable through the generated converter of its own name, so the
// call must succeed, whatever the iteration orders, and deliver f_n(x_n).
//
//	nVals 2 or 3 named P0 values; sv: order policy (see hOrderSites)
//	chain 1: explicit converters n:P0 -> n:P1 are supplied and the generator reacts to the
//	      named P1 values, which exist only as outputs of those converters (n:P1 -> n:P2;
//	      the target needs n:P2): generators are offered what supplied converters can produce
func HarnessC05Gen(nVals, sv, chain int) {
	hOrderSites(sv)
	names := []string{"a", "b", "c"}[:nVals]
	xs := make([]int, nVals)
	var args []Arg
	for i, n := range names {
		xs[i] = vnPayload("x", i)
		args = append(args, Named(n, hP0{xs[i]}))
	}
	// a distractor of another type, and a type-only P0 value the generator ignores
	args = append(args, Typed(hP2{vnPayload("d")}))
	genCalls := 0
	srcT, dstT := hTP0, hTP1
	if chain == 1 {
		srcT, dstT = hTP1, hTP2
		for _, n := range names {
			name := n
			in := hStructType([]hLabel{{Name: name, T: hTP0}})
			out := hStructType([]hLabel{{Name: name, T: hTP1}})
			fn := reflect.MakeFunc(reflect.FuncOf([]reflect.Type{in}, []reflect.Type{out}, false), func(a []reflect.Value) []reflect.Value {
				_, id := hUnpack(a[0].Field(1).Interface())
				o := reflect.New(out).Elem()
				o.Field(1).Set(reflect.ValueOf(hP1{vnUF("exp_"+name, id)}))
				return []reflect.Value{o}
			})
			args = append(args, Converter(fn.Interface()))
		}
	}
	gen := func(v Value) (*Func, error) {
		genCalls++
		if v.Name == "" || v.Type != hType(srcT) {
			return nil, nil
		}
		name := v.Name
		in := hStructType([]hLabel{{Name: name, T: srcT}})
		out := hStructType([]hLabel{{Name: name, T: dstT}})
		ft := reflect.FuncOf([]reflect.Type{in}, []reflect.Type{out}, false)
		fn := reflect.MakeFunc(ft, func(a []reflect.Value) []reflect.Value {
			_, id := hUnpack(a[0].Field(1).Interface())
			o := reflect.New(out).Elem()
			o.Field(1).Set(reflect.ValueOf(hMk(dstT, vnUF("gen_"+name, id))))
			return []reflect.Value{o}
		})
		return NewFunc(fn.Interface())
	}
	args = append(args, ConverterGen(gen))
	// which parameters the target has
	var need []int
	for i := range names {
		if vnBool("need", i) {
			need = append(need, i)
		}
	}
	if len(need) == 0 {
		vnAssume(false)
	}
	var ls []hLabel
	desc := ""
	for _, i := range need {
		ls = append(ls, hLabel{Name: names[i], T: dstT})
		desc += names[i] + fmt.Sprintf(":P%d ", dstT)
	}
	tin := hStructType(ls)
	got := make([]int, len(need))
	ran := 0
	tfn := reflect.MakeFunc(reflect.FuncOf([]reflect.Type{tin}, nil, false), func(a []reflect.Value) []reflect.Value {
		ran++
		for j := range need {
			_, got[j] = hUnpack(a[0].Field(j + 1).Interface())
		}
		return nil
	})
	target, err := NewFunc(tfn.Interface())
	vnNote(fmt.Sprintf("%d named P0 values, name-sensitive generator n:P0 -> n:P1, target needs %s; order policy %d; chain %d", nVals, desc, sv, chain))
	if err != nil {
		vnAssume(false)
	}
	vnOnDivergence("C05.call-terminates", "")
	for rep := 0; rep < 2; rep++ {
		if rep == 1 {
			vnScheduleEpoch()
		}
		ran = 0
		var r Result
		if hGuardPlain(func() { r = target.Call(args...) }) {
			vnAssert(false, "C05.gen.call-does-not-panic")
			return
		}
		vnAssert(r.Err() == nil, "C05.gen.derivable-through-generated-converters-succeeds")
		if r.Err() != nil {
			return
		}
		vnAssert(ran == 1, "C05.gen.target-executed")
		for j, i := range need {
			want := vnUF("gen_"+names[i], xs[i])
			if chain == 1 {
				want = vnUF("gen_"+names[i], vnUF("exp_"+names[i], xs[i]))
			}
			vnAssert(got[j] == want, "C05.gen.parameter-receives-its-own-name's-conversion")
		}
	}
	vnCover("C05.gen-checked")
}
