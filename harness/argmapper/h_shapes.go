//go:build verif

package argmapper

import (
	"errors"
	"fmt"
)

// Statically declared parameter / result structs of unusual but legal shapes
// (reflect.StructOf cannot build them: an embedded type with methods must be the
// first field there). The resolver properties must hold for them as well.

type hMLIn struct { // marker last
	X hP0 `argmapper:",typeOnly"`
	Struct
}

type hMLOut struct { // marker in the middle
	Y hP1 `argmapper:",typeOnly"`
	Struct
	Z hP2 `argmapper:"z"`
}

// HarnessShapes — resolver behaviour on functions whose structs have unusual shapes.
//
//	kind 0 (C05): a converter whose input struct carries the marker last and whose result
//	              struct carries it in the middle is the only derivation path: the call succeeds
//	              and every function receives the right value
//	kind 1 (C02): a target whose struct reaches the marker only through an embedded struct is
//	              NOT a parameter struct; loose values matching its field names do not satisfy it
//	kind 2 (C13): an embedded exported type next to the marker is a named parameter; when
//	              nothing supplies it the call is refused and the error names exactly it
func HarnessShapes(kind int) {
	hOrderSites(0)
	x := vnPayload("x")
	vnOnDivergence("", "")
	switch kind {
	case 0:
		ranConv, ranTarget := 0, 0
		var gotX, gotY, gotZ int
		conv, err1 := NewFunc(func(in hMLIn) (hMLOut, error) {
			ranConv++
			gotX = in.X.ID
			return hMLOut{Y: hP1{vnUF("shapeY", in.X.ID)}, Z: hP2{vnUF("shapeZ", in.X.ID)}}, nil
		})
		target, err2 := NewFunc(func(in *hMLOut) hP0 {
			ranTarget++
			gotY, gotZ = in.Y.ID, in.Z.ID
			return hP0{in.Y.ID}
		})
		vnNote("marker-last input struct / marker-in-the-middle result struct on the only derivation path")
		vnAssert(err1 == nil && err2 == nil, "C05.shapes.functions-accepted")
		if err1 != nil || err2 != nil {
			return
		}
		var r Result
		if hGuardPlain(func() { r = target.Call(Typed(hP0{x}), ConverterFunc(conv)) }) {
			vnAssert(false, "C05.shapes.call-does-not-panic")
			return
		}
		vnAssert(r.Err() == nil, "C05.shapes.derivable-call-succeeds")
		// (a converter is executed once per parameter that needs it)
		vnAssert(ranConv >= 1 && ranTarget == 1, "C05.shapes.converter-and-target-executed")
		vnAssert(gotX == x, "C05.shapes.converter-received-the-supplied-value")
		vnAssert(gotY == vnUF("shapeY", x) && gotZ == vnUF("shapeZ", x), "C05.shapes.target-received-the-converter's-outputs")
		// the same through Redefine with an input filter admitting only P0: the redefined function needs exactly the P0 value
		nf, err := target.Redefine(ConverterFunc(conv), FilterInput(FilterType(hType(hTP0))))
		vnAssert(err == nil && nf != nil, "C05.shapes.redefine-succeeds")
		if err == nil && nf != nil {
			vs := nf.Input().Values()
			vnAssert(len(vs) == 1 && vs[0].Name == "" && vs[0].Type == hType(hTP0), "C05.shapes.redefined-function-needs-the-P0-value")
		}
		vnCover("C05.shapes-checked")
	case 1:
		ran := 0
		target, err := NewFunc(func(in hNested) hP0 { ran++; return in.A })
		vnNote("target parameter struct reaches the marker only through an embedded struct (not a parameter struct)")
		vnAssert(err == nil, "C02.shapes.function-accepted")
		if err != nil {
			return
		}
		var r Result
		if hGuardPlain(func() { r = target.Call(Named("a", hP0{x}), Named("b", hP1{x}), Typed(hP0{x}), Typed(hP1{x})) }) {
			vnAssert(false, "C02.shapes.call-does-not-panic")
			return
		}
		vnAssert(r.Err() != nil, "C02.shapes.loose-field-values-do-not-satisfy-a-non-parameter-struct")
		vnAssert(ran == 0, "C02.shapes.target-not-executed")
		var un *ErrArgumentUnsatisfied
		vnAssert(r.Err() == nil || errors.As(r.Err(), &un), "C02.shapes.dedicated-error-type")
		// the whole struct value, supplied as such, satisfies it
		var got hNested
		t2, _ := NewFunc(func(in hNested) hP0 { ran++; got = in; return in.A })
		r = t2.Call(Typed(hNested{hCommon: hCommon{A: hP0{x}}, B: hP1{x + 1}}))
		vnAssert(r.Err() == nil && ran == 1 && got.A.ID == x && got.B.ID == x+1, "C02.shapes.the-whole-struct-value-is-the-parameter")
		vnCover("C02.shapes-checked")
	case 2:
		ran := 0
		target, err := NewFunc(func(in hWithEmbedded) hP0 { ran++; return in.A })
		vnNote("embedded exported type next to the marker is a named parameter (hbase)")
		vnAssert(err == nil, "C13.shapes.function-accepted")
		if err != nil {
			return
		}
		var r Result
		if hGuardPlain(func() { r = target.Call(Named("a", hP0{x})) }) {
			vnAssert(false, "C13.shapes.call-does-not-panic")
			return
		}
		vnAssert(r.Err() != nil && ran == 0, "C13.shapes.missing-embedded-parameter-refuses-the-call")
		var un *ErrArgumentUnsatisfied
		if r.Err() != nil && errors.As(r.Err(), &un) {
			vnAssert(len(un.Args) == 1 && un.Args[0].Name == "hbase", "C13.shapes.error-names-exactly-the-embedded-parameter")
		} else {
			vnAssert(false, "C13.shapes.dedicated-error-type")
		}
		var got hWithEmbedded
		t2, _ := NewFunc(func(in hWithEmbedded) hP0 { got = in; return in.A })
		r = t2.Call(Named("a", hP0{x}), Named("hbase", HBase{N: 7}))
		vnAssert(r.Err() == nil && got.A.ID == x && got.N == 7, "C13.shapes.supplied-embedded-parameter-is-injected")
		vnCover("C13.shapes-checked")
	}
	_ = fmt.Sprint
}
