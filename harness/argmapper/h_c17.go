//go:build verif

package argmapper

import (
	"fmt"
	"reflect"
)

type hErrT struct{ ID int }

func (e *hErrT) Error() string { return fmt.Sprintf("hErrT %d", e.ID) }

// result slot kinds of the generated function
const (
	hrP0     = 0
	hrP1     = 1
	hrErrIf  = 2 // an error-typed (interface) result
	hrErrPtr = 3 // a result of the concrete error type *hErrT
	hrP2     = 4
	hrAny    = 5 // interface{}: every error value is assignable to it, it is not an error result
	hrErrish = 6 // a named interface with method Error() string that is not the type error
)

// hErrish has the method set of error but is a different type.
type hErrish interface{ Error() string }

func hResType(k int) reflect.Type {
	switch k {
	case hrP0:
		return hType(hTP0)
	case hrP1:
		return hType(hTP1)
	case hrP2:
		return hType(hTP2)
	case hrErrIf:
		return errType
	case hrAny:
		return reflect.TypeOf((*interface{})(nil)).Elem()
	case hrErrish:
		return reflect.TypeOf((*hErrish)(nil)).Elem()
	}
	return reflect.TypeOf((*hErrT)(nil))
}

// HarnessC17 — Result accessors partition the function's return values.
//
//	k      number of results before the (optional) final slot, 0..3
//	final  0: no further result, 1: a final error, 2: a final *hErrT (concrete error type),
//	       3: a final interface{} result, 4: a final result of an interface type that has
//	       error's method set but is not error (3 and 4 symbolically hold an error value)
//	form   0 positional results, 1 one marker-struct result (k fields) before the final slot
func HarnessC17(k, final, form int) {
	hOrderSites(0)
	kinds := make([]int, 0, 4)
	pool := []int{hrP0, hrP1, hrErrIf, hrP2}
	used := map[int]bool{}
	if form == 0 {
		for i := 0; i < k; i++ {
			c := pool[vnChoice("kind", len(pool), i)]
			if used[c] {
				vnAssume(false) // result lists repeat no type-only key
			}
			used[c] = true
			kinds = append(kinds, c)
		}
		if final == 0 && k > 0 && kinds[k-1] == hrErrIf {
			vnAssume(false) // an error-typed last result IS a final error: that is the final=1 case
		}
	}
	var outs []reflect.Type
	var outS reflect.Type
	labels := []hLabel{{Name: "a", T: hTP0}, {T: hTP1}, {Name: "c", T: hTP2, Sub: "s"}}
	if form == 0 {
		for _, c := range kinds {
			outs = append(outs, hResType(c))
		}
	} else {
		if k == 0 {
			vnAssume(false)
		}
		outS = hStructType(labels[:k])
		if form == 2 {
			outs = append(outs, reflect.PtrTo(outS))
		} else {
			outs = append(outs, outS)
		}
	}
	switch final {
	case 1:
		outs = append(outs, errType)
	case 2:
		outs = append(outs, hResType(hrErrPtr))
	case 3:
		outs = append(outs, hResType(hrAny))
	case 4:
		outs = append(outs, hResType(hrErrish))
	}
	// concrete values the body returns; nil-ness of error slots is symbolic
	n := len(outs)
	payload := make([]int, n)
	isNil := make([]bool, n)
	errObjs := make([]error, n)
	ptrObjs := make([]*hErrT, n)
	desc := ""
	for i := 0; i < n; i++ {
		payload[i] = vnPayload("out", i)
		if outs[i] == errType {
			if vnBool("nil", i) {
				isNil[i] = true
			}
			errObjs[i] = fmt.Errorf("error object %d", i)
		}
		if outs[i] == hResType(hrErrPtr) {
			if vnBool("nil", i) {
				isNil[i] = true
			}
			ptrObjs[i] = &hErrT{ID: i}
		}
		if outs[i] == hResType(hrAny) || outs[i] == hResType(hrErrish) {
			// an interface-typed ordinary result: nil, or holding an error value
			if vnBool("nil", i) {
				isNil[i] = true
			}
			errObjs[i] = fmt.Errorf("error object %d in a non-error interface result", i)
		}
		if form == 2 && i == 0 && vnBool("nilStructPtr") {
			isNil[0] = true // the function returns a nil *struct
		}
		desc += fmt.Sprintf("%v(nil=%v) ", outs[i], isNil[i])
	}
	vnNote(fmt.Sprintf("k=%d final=%d form=%d results: %s", k, final, form, desc))
	ft := reflect.FuncOf(nil, outs, false)
	ran := 0
	fn := reflect.MakeFunc(ft, func(args []reflect.Value) []reflect.Value {
		ran++
		res := make([]reflect.Value, n)
		for i, t := range outs {
			switch {
			case t == errType, t == hResType(hrAny), t == hResType(hrErrish):
				if isNil[i] {
					res[i] = reflect.Zero(t)
				} else {
					res[i] = reflect.ValueOf(errObjs[i])
				}
			case t == hResType(hrErrPtr):
				if isNil[i] {
					res[i] = reflect.Zero(t)
				} else {
					res[i] = reflect.ValueOf(ptrObjs[i])
				}
			case form >= 1 && i == 0:
				sp := reflect.New(outS)
				for j := 0; j < k; j++ {
					sp.Elem().Field(j + 1).Set(reflect.ValueOf(hMk(labels[j].T, payload[0]+j)))
				}
				switch {
				case form == 2 && isNil[0]:
					res[i] = reflect.Zero(reflect.PtrTo(outS))
				case form == 2:
					res[i] = sp
				default:
					res[i] = sp.Elem()
				}
			case t == hType(hTP0):
				res[i] = reflect.ValueOf(hP0{payload[i]})
			case t == hType(hTP1):
				res[i] = reflect.ValueOf(hP1{payload[i]})
			default:
				res[i] = reflect.ValueOf(hP2{payload[i]})
			}
		}
		return res
	})
	f, err := NewFunc(fn.Interface())
	vnAssert(err == nil, "C17.function-accepted")
	if err != nil {
		return
	}
	var r Result
	if hGuardPlain(func() { r = f.Call() }) {
		vnAssert(false, "C17.call-does-not-panic")
		return
	}
	vnAssert(ran == 1, "C17.function-executed-once")
	wantLen := n
	if final == 1 {
		wantLen = n - 1
	}
	// the accessors are pure: their answers do not depend on which of them was asked first
	if vnBool("errBeforeLen") {
		e1 := r.Err()
		if wantLen > 0 {
			hGuardPlain(func() { _ = r.Out(0) })
		}
		vnAssert(r.Err() == e1, "C17.err-is-idempotent")
	}
	vnAssert(r.Len() == wantLen, "C17.len-excludes-only-a-final-error")
	if r.Len() != wantLen {
		return
	}
	// Err(): the final error value, nil when nil or when there is no final error result
	if final == 1 {
		if isNil[n-1] {
			vnAssert(r.Err() == nil, "C17.err-nil-when-final-error-is-nil")
		} else {
			vnAssert(r.Err() == errObjs[n-1], "C17.err-is-the-final-error-value")
		}
		vnCover("C17.final-error-checked")
	} else {
		vnAssert(r.Err() == nil, "C17.no-final-error-means-err-nil")
	}
	if final == 2 {
		vnCover("C17.concrete-error-type-is-an-output")
	}
	for i := 0; i < wantLen; i++ {
		var got interface{}
		if hGuardPlain(func() { got = r.Out(i) }) {
			vnAssert(false, "C17.out-does-not-panic")
			continue
		}
		t := outs[i]
		switch {
		case t == hResType(hrAny), t == hResType(hrErrish):
			if isNil[i] {
				vnAssert(got == nil, "C17.out-nil-interface-result")
			} else {
				vnAssert(got == interface{}(errObjs[i]), "C17.out-interface-result-holding-an-error-is-an-ordinary-output")
			}
			vnCover("C17.final-non-error-interface-checked")
		case t == errType:
			if isNil[i] {
				vnAssert(got == nil, "C17.out-nil-error-in-non-final-position")
			} else {
				vnAssert(got == interface{}(errObjs[i]), "C17.out-error-in-non-final-position-is-an-ordinary-output")
			}
			vnCover("C17.non-final-error-checked")
		case t == hResType(hrErrPtr):
			p, ok := got.(*hErrT)
			vnAssert(ok, "C17.out-concrete-error-type")
			if ok {
				if isNil[i] {
					vnAssert(p == nil, "C17.out-concrete-error-nil")
				} else {
					vnAssert(p == ptrObjs[i], "C17.out-concrete-error-value")
				}
			}
		case form >= 1 && i == 0:
			gv := reflect.ValueOf(got)
			if form == 2 {
				vnAssert(gv.IsValid() && gv.Type() == reflect.PtrTo(outS), "C17.out-pointer-struct-type")
				if !gv.IsValid() || gv.Type() != reflect.PtrTo(outS) {
					break
				}
				vnAssert(gv.IsNil() == isNil[0], "C17.out-pointer-struct-nilness-is-the-function's")
				if gv.IsNil() {
					vnCover("C17.nil-pointer-struct-checked")
					break
				}
				gv = gv.Elem()
			}
			vnAssert(gv.Type() == outS, "C17.out-struct-type")
			if gv.Type() == outS {
				for j := 0; j < k; j++ {
					_, id := hUnpack(gv.Field(j + 1).Interface())
					vnAssert(id == payload[0]+j, "C17.out-struct-field-value")
				}
			}
		default:
			gt, id := hUnpack(got)
			vnAssert(gt >= 0 && hType(gt) == t, "C17.out-dynamic-type")
			vnAssert(id == payload[i], "C17.out-is-the-ith-returned-value")
		}
	}
	vnCover("C17.accessors-checked")
}

func hGuardPlain(f func()) (panicked bool) {
	defer func() {
		if recover() != nil {
			panicked = true
		}
	}()
	f()
	return false
}

// HarnessC17Fail — when resolution itself fails the result has length 0 and a non-nil error.
func HarnessC17Fail(kind int) {
	hOrderSites(0)
	var r Result
	switch kind {
	case 0: // missing argument
		f, _ := NewFunc(func(a hP0) (hP1, error) { return hP1{1}, nil })
		r = f.Call()
	case 1: // nil option
		f, _ := NewFunc(func(a hP0) (hP1, hP2) { return hP1{1}, hP2{2} })
		r = f.Call(Typed(hP0{vnPayload("x")}), nil)
	case 2: // unsatisfiable through a converter whose own input is missing
		f, _ := NewFunc(func(a hP0) hP0 { return a })
		r = f.Call(Converter(func(b hP1) hP0 { return hP0{b.ID} }))
	case 3: // a failing converter
		e := fmt.Errorf("conv failed")
		f, _ := NewFunc(func(a hP0) (hP0, hP1) { return a, hP1{} })
		r = f.Call(Typed(hP1{vnPayload("x")}), Converter(func(b hP1) (hP0, error) { return hP0{}, e }))
		vnAssert(r.Err() == e, "C17.converter-error")
	}
	vnNote(fmt.Sprintf("resolution failure kind %d", kind))
	vnAssert(r.Err() != nil, "C17.resolution-failure-has-error")
	vnAssert(r.Len() == 0, "C17.resolution-failure-has-length-0")
	vnCover("C17.resolution-failure-checked")
}

// HarnessC17Once — the accessors on the result of a run-once function that was
// first used as a converter inside another call and is then called directly:
// the direct call's result must still be the function's own return values.
func HarnessC17Once(form int) {
	hOrderSites(0)
	w := &hWorld{}
	w.Target = hFuncSpec{ID: 0, Form: hFormStruct, In: []hLabel{{Name: "a", T: hTP1}}}
	w.Convs = []hFuncSpec{{ID: 1, Form: form, In: []hLabel{{T: hTP0}}, Out: []hLabel{{Name: "a", T: hTP1}}, Once: true}}
	if form == hFormPositional {
		w.Convs[0].Out = []hLabel{{T: hTP1}}
	}
	w.Vals = []hVal{{L: hLabel{T: hTP0}, ID: vnPayload("x")}}
	vnNote(w.String())
	args, okb := w.hBuildAll()
	if !okb {
		vnAssume(false)
	}
	if vnBool("redefineFirst") {
		// planning through the run-once function before its first real use must not disturb it
		hGuardPlain(func() {
			_, _ = w.Funcs[0].Redefine(append(append([]Arg{}, args...), FilterInput(FilterType(hType(hTP0))))...)
		})
		vnNoteAppend(" [Redefine with an input filter first]")
	}
	w.Log = nil
	var r Result
	if hGuardPlain(func() { r = w.Funcs[0].Call(args...) }) {
		vnAssert(false, "C17.once.converter-use-does-not-panic")
		return
	}
	vnAssert(r.Err() == nil, "C17.once.converter-use-succeeds")
	ranFirst := len(w.Log) > 0 && w.Log[0].Fn == 1
	vnAssert(ranFirst, "C17.once.first-real-use-executes-the-function")
	if r.Err() != nil || !ranFirst {
		return
	}
	first := w.Log[0].Out[0]
	f := w.Funcs[1]
	wantT := f.Func()
	_ = wantT
	for k := 0; k < 2; k++ {
		var r2 Result
		if hGuardPlain(func() { r2 = f.Call(Typed(hP0{vnPayload("y", k)})) }) {
			vnAssert(false, "C17.once.direct-call-does-not-panic")
			return
		}
		vnAssert(r2.Err() == nil, "C17.once.direct-call-succeeds")
		vnAssert(r2.Len() == 1, "C17.once.len")
		if r2.Err() != nil || r2.Len() != 1 {
			return
		}
		out := r2.Out(0)
		// the i-th output is the function's i-th returned value: same Go type as declared
		ft := reflect.TypeOf(f.Func())
		vnAssert(reflect.TypeOf(out) == ft.Out(0), "C17.once.out-has-the-declared-result-type")
		ids := hResultIDs(r2)
		vnAssert(len(ids) == 1, "C17.once.out-shape")
		if len(ids) == 1 {
			vnAssert(ids[0].T == first.L.T && ids[0].ID == first.ID, "C17.once.out-is-the-first-execution's-value")
		}
	}
	// a later call whose resolution fails (the input is missing, or a nil option is
	// passed) has length 0 and an error, no matter that the function has a cached result
	var r3 Result
	bad := vnBool("laterCallBadOption")
	if hGuardPlain(func() {
		if bad {
			r3 = f.Call(Typed(hP0{vnPayload("z")}), nil)
		} else {
			r3 = f.Call()
		}
	}) {
		vnAssert(false, "C17.once.unresolvable-call-does-not-panic")
		return
	}
	vnAssert(r3.Err() != nil, "C17.once.unresolvable-later-call-has-an-error")
	vnAssert(r3.Len() == 0, "C17.once.unresolvable-later-call-has-length-0")
	vnCover("C17.once-checked")
}
