//go:build verif

package argmapper

import "fmt"

// HarnessC12 — functions, converters and options can be shared by concurrent calls.
//
// Non-interference reduction: the library holds no lock around the state a call
// reads, so a data race exists iff a call WRITES a location that existed before
// the call (and is reachable from the shared target / converters / options)
// without holding a lock. The harness builds the shared objects from ordinary Go
// functions, marks everything reachable from them, runs ONE operation and
// asserts that no unguarded store hit a marked location. If no call writes
// shared state, any number of concurrent calls are race-free under every
// interleaving and each behaves exactly as it does alone.
//
//	op    0 Call, 1 Convert, 2 Redefine, 3 Call twice (second application of every shared Arg),
//	      4 Redefine then call the redefined function
//	mix   which option kinds are in the shared option slice (bit set, symbolic extras)
//	once  1: the converter chain contains a run-once converter
func HarnessC12(op, once int) {
	hOrderSites(0)
	x, y := vnPayload("x"), vnPayload("y")
	var onceOpts []Arg
	if once == 1 {
		onceOpts = []Arg{FuncOnce()}
	}
	conv1, err1 := NewFunc(func(a hP0) hP1 { return hP1{a.ID + 1} }, onceOpts...)
	conv2, err2 := NewFunc(func(in struct {
		Struct
		B hP1 `argmapper:"b,subtype=s"`
	}) (hP2, error) {
		return hP2{in.B.ID}, nil
	})
	// the default option slice has spare capacity, as a slice built with append usually has
	defaults := make([]Arg, 0, 8)
	defaults = append(defaults, Named("dflt", hP0{y}), FuncName("shared-target"))
	target, err3 := NewFunc(func(in struct {
		Struct
		A    hP1
		Dflt hP0
		C    hP2 `argmapper:",typeOnly"`
	}) (hP1, error) {
		return in.A, nil
	}, defaults...)
	if err1 != nil || err2 != nil || err3 != nil {
		vnAssert(false, "C12.setup")
		return
	}
	gen := func(v Value) (*Func, error) { return nil, nil }
	filt := func(v Value) bool { return true }
	opts := make([]Arg, 0, 16)
	opts = append(opts, Typed(hP0{x}))
	desc := "Typed "
	// a symbolic selection of further option kinds, all shared
	if vnBool("optNamed") {
		opts = append(opts, Named("A", hP1{x}))
		desc += "Named "
	}
	if vnBool("optNamedSub") {
		opts = append(opts, NamedSubtype("B", hP1{y}, "s"))
		desc += "NamedSubtype "
	}
	if vnBool("optTypedSub") {
		opts = append(opts, TypedSubtype(hP2{y}, "s"))
		desc += "TypedSubtype "
	}
	if vnBool("optConvFunc") {
		opts = append(opts, ConverterFunc(conv1, conv2))
		desc += "ConverterFunc "
	} else {
		opts = append(opts, ConverterFunc(conv1), Converter(func(b hP1) hP2 { return hP2{b.ID} }))
		desc += "Converter "
	}
	if vnBool("optGen") {
		opts = append(opts, ConverterGen(gen))
		desc += "ConverterGen "
	}
	if vnBool("optFilter") {
		opts = append(opts, FilterInput(filt), FilterOutput(filt))
		desc += "Filters "
	}
	vnNote(fmt.Sprintf("op=%d once=%d shared options: %s", op, once, desc))
	vnOnDivergence("", "")
	vnEpoch(target, conv1, conv2, opts, defaults)
	panicked := hGuardPlain(func() {
		vnConcurrently(func() {
			switch op {
			case 0:
				r := target.Call(opts...)
				_ = r.Err()
			case 1:
				_, _ = Convert(hType(hTP2), opts...)
			case 2:
				_, _ = target.Redefine(opts...)
			case 3:
				r := target.Call(opts...)
				_ = r.Err()
				r = target.Call(opts...)
				_ = r.Err()
				_, _ = Convert(hType(hTP1), opts...)
			case 4:
				nf, err := target.Redefine(opts...)
				if err == nil && nf != nil {
					r := nf.Call()
					_ = r.Err()
					_ = nf.Input().Values()
				}
			}
		})
	})
	if panicked {
		return // C06's subject
	}
	n := vnSharedWrites()
	if n != 0 {
		vnNoteAppend(" | unguarded writes to shared state at: " + vnSharedWriteSites())
	}
	vnAssertK(n == 0, "C12.no-unguarded-write-to-shared-state", hClassifyOnce(once))
	vnCover("C12.operation-checked")
}

func hClassifyOnce(once int) string { return "" }
