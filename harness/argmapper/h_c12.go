//go:build verif

package argmapper

import "fmt"

// HarnessC12 — functions, converters and options can be shared by concurrent calls.
//
// Non-interference reduction: the library holds no lock around the state a call
// reads, so a data race exists iff a call WRITES a location that existed before
// the call (and is reachable from the shared target / converters / options)
// without holding a lock. The harness builds the shared objects from ordinary Go
// functions, marks everything reachable from them, runs TWO operations (the
// second chosen symbolically; natively they run as two goroutines) and asserts
// the lock discipline over every access library code made to a marked location:
// no store without a lock, and no location that is stored under a lock and also
// read (or stored) under a lockset that shares no lock with it (Eraser's lockset
// criterion; a passed sync.Once counts as a lock). If that holds, any number of
// concurrent calls are race-free under every interleaving.
//
//	op    0 Call, 1 Convert, 2 Redefine, 3 Call twice (second application of every shared Arg),
//	      4 Redefine then call the redefined function,
//	      5 call a shared function that an earlier Redefine returned (the target symbolically fails)
//	mix   which option kinds are in the shared option slice (bit set, symbolic extras)
//	once  1: the converter chain contains a run-once converter
func HarnessC12(op, once int) {
	hOrderSites(0)
	x, y := vnPayload("x"), vnPayload("y")
	targetFails := vnBool("targetFails")
	errTarget := fmt.Errorf("target failed")
	var onceOpts []Arg
	if once == 1 {
		onceOpts = []Arg{FuncOnce()}
	}
	conv1, err1 := NewFunc(func(a hP0) hP1 { return hP1{a.ID + 1} }, onceOpts...)
	conv2, err2 := NewFunc(func(in struct {
		Struct
		B hP1 `argmapper:"b,subtype=s"`
	}) (hP2, error) {
		return hP2{in.B.ID}, nil
	})
	// the default option slice has spare capacity, as a slice built with append usually has
	defaults := make([]Arg, 0, 8)
	defaults = append(defaults, Named("dflt", hP0{y}), FuncName("shared-target"))
	target, err3 := NewFunc(func(in struct {
		Struct
		A    hP1
		Dflt hP0
		C    hP2 `argmapper:",typeOnly"`
	}) (hP1, error) {
		if targetFails {
			return hP1{}, errTarget
		}
		return in.A, nil
	}, defaults...)
	if err1 != nil || err2 != nil || err3 != nil {
		vnAssert(false, "C12.setup")
		return
	}
	gen := func(v Value) (*Func, error) { return nil, nil }
	filt := func(v Value) bool { return true }
	opts := make([]Arg, 0, 16)
	opts = append(opts, Typed(hP0{x}))
	desc := "Typed "
	// a symbolic selection of further option kinds, all shared
	if vnBool("optNamed") {
		opts = append(opts, Named("A", hP1{x}))
		desc += "Named "
	}
	if vnBool("optNamedSub") {
		opts = append(opts, NamedSubtype("B", hP1{y}, "s"))
		desc += "NamedSubtype "
	}
	if vnBool("optTypedSub") {
		opts = append(opts, TypedSubtype(hP2{y}, "s"))
		desc += "TypedSubtype "
	}
	nVals := len(opts)
	if vnBool("optConvFunc") {
		opts = append(opts, ConverterFunc(conv1, conv2))
		desc += "ConverterFunc "
	} else {
		opts = append(opts, ConverterFunc(conv1), Converter(func(b hP1) hP2 { return hP2{b.ID} }))
		desc += "Converter "
	}
	if vnBool("optGen") {
		opts = append(opts, ConverterGen(gen))
		desc += "ConverterGen "
	}
	if vnBool("optFilter") {
		opts = append(opts, FilterInput(filt), FilterOutput(filt))
		desc += "Filters "
	}
	vnNote(fmt.Sprintf("op=%d once=%d shared options: %s", op, once, desc))
	vnOnDivergence("", "")
	// a function obtained from Redefine earlier, from the converters alone (so it still
	// needs value inputs), is shared too
	redefined, errRd := target.Redefine(opts[nVals:]...)
	if errRd != nil {
		redefined = nil
	}
	vnEpoch(target, conv1, conv2, opts, defaults, redefined)
	doOp := func(op int) {
		switch op {
		case 5:
			if redefined == nil {
				vnAssume(false)
			}
			r := redefined.Call(opts...)
			_ = r.Err()
		case 0:
			r := target.Call(opts...)
			_ = r.Err()
		case 1:
			_, _ = Convert(hType(hTP2), opts...)
		case 2:
			_, _ = target.Redefine(opts...)
		case 3:
			r := target.Call(opts...)
			_ = r.Err()
			r = target.Call(opts...)
			_ = r.Err()
			_, _ = Convert(hType(hTP1), opts...)
		case 4:
			nf, err := target.Redefine(opts...)
			if err == nil && nf != nil {
				r := nf.Call()
				_ = r.Err()
				_ = nf.Input().Values()
			}
		}
	}
	// the second goroutine performs a symbolically chosen operation (possibly the same one)
	op2 := hPick("op2", 6)
	vnNoteAppend(fmt.Sprintf(" | together with op=%d", op2))
	panicked := hGuardPlain(func() {
		vnTogether(func() { doOp(op) }, func() { doOp(op2) })
	})
	if panicked {
		return // C06's subject
	}
	n := vnSharedWrites()
	if n != 0 {
		vnNoteAppend(" | unguarded writes to shared state at: " + vnSharedWriteSites())
	}
	vnAssertK(n == 0, "C12.no-unguarded-write-to-shared-state", hClassifyOnce(once))
	vnCover("C12.operation-checked")
}

func hClassifyOnce(once int) string { return "" }

// HarnessC12Par — outcome clause under explored interleavings: two goroutines call
// the same target through the same shared run-once converter (and shared option
// values) with different inputs. Each concurrent call must return an outcome that a
// sequential execution of the two calls can return: both see f(x1) (A first) or both
// see f(x2) (B first).
func HarnessC12Par(onceForm, maxSwitches int) {
	hOrderSites(0)
	w := &hWorld{}
	w.Convs = []hFuncSpec{{ID: 1, Form: onceForm, In: []hLabel{{T: hTP0}}, Out: []hLabel{{Name: "a", T: hTP1}}, Once: true}}
	w.Target = hFuncSpec{ID: 0, Form: hFormStruct, In: []hLabel{{Name: "a", T: hTP1}}, Out: []hLabel{{T: hTP2}}}
	_, ok := w.hBuildAll()
	if !ok {
		vnAssume(false)
	}
	target, once := w.Funcs[0], w.Funcs[1]
	shared := ConverterFunc(once)
	x1, x2 := vnPayload("x", 1), vnPayload("x", 2)
	vnNote(fmt.Sprintf("two goroutines sharing target, run-once converter (%s form) and its option value; <=%d context switches", hFormNames[onceForm], maxSwitches))
	vnOnDivergence("", "")
	vnEpoch(target, once, shared)
	var r1, r2 Result
	vnPar(func() { r1 = target.Call(Typed(hP0{x1}), shared) }, func() { r2 = target.Call(Typed(hP0{x2}), shared) }, maxSwitches)
	vnAssert(r1.Err() == nil && r2.Err() == nil, "C12.par.both-calls-succeed")
	if r1.Err() != nil || r2.Err() != nil {
		return
	}
	ids1, ids2 := hResultIDs(r1), hResultIDs(r2)
	if len(ids1) != 1 || len(ids2) != 1 {
		vnAssert(false, "C12.par.result-shape")
		return
	}
	// the target returns an uninterpreted function of what it received
	aFirst := vnUF("f0o0", vnUF("f1o0", x1, 1))
	bFirst := vnUF("f0o0", vnUF("f1o0", x2, 1))
	seqAB := vnAnd(ids1[0].ID == aFirst, ids2[0].ID == aFirst)
	seqBA := vnAnd(ids1[0].ID == bFirst, ids2[0].ID == bFirst)
	vnAssert(vnOr(seqAB, seqBA), "C12.par.outcomes-are-sequentially-possible")
	vnAssert(vnSharedWrites() == 0, "C12.par.no-unguarded-write-to-shared-state")
	vnCover("C12.par-checked")
}
