//go:build verif

package argmapper

import (
	"errors"
	"fmt"
)

// hOrderSites selects the iteration-order policy of a resolver call.
//
//	0          insertion order everywhere
//	1..99      seeded permutation vector number sv at every range site
//	100        exhaustive product of independent flips at the order-sensitive sites of
//	           path selection (Dijkstra's queue fill and relaxation ranges, Copy's
//	           outer ranges, OutEdges, InEdges), insertion elsewhere
//	101        perm(3) at Dijkstra's relaxation range and at OutEdges, flips at the
//	           queue fill and Copy ranges
//	102        independent flip at every range site of the program
//	103        flip at Graph.Vertices (insertion elsewhere)
func hOrderSites(sv int) {
	vnCut("(*github.com/hashicorp/go-argmapper/internal/graph.Graph).String")
	switch {
	case sv == 0:
	case sv < 100:
		vnScheduleDefault(vnSeeded, 0)
		vnScheduleSeed(sv)
	case sv == 100:
		for _, s := range []string{"Graph.Dijkstra#0", "Graph.Dijkstra#1", "Graph.Copy#0", "Graph.Copy#2", "Graph.OutEdges#0", "Graph.InEdges#0"} {
			vnSchedule(s, vnFlip, 0)
		}
	case sv == 101:
		vnSchedule("Graph.Dijkstra#1", vnPerm, 3)
		vnSchedule("Graph.OutEdges#0", vnPerm, 3)
		for _, s := range []string{"Graph.Dijkstra#0", "Graph.Copy#0", "Graph.Copy#2", "Graph.InEdges#0"} {
			vnSchedule(s, vnFlip, 0)
		}
	case sv == 102:
		vnScheduleDefault(vnFlip, 0)
	case sv == 103:
		// the order in which the vertices of the call graph are enumerated (values are
		// offered to converter generators in that order): forward or reverse, per enumeration
		vnSchedule("Graph.Vertices#0", vnFlip, 0)
	}
}

// HarnessC03 — exact matches win: no conversion when direct inputs satisfy
// every parameter, whatever distractor values and converters are supplied.
//
//	nT target parameters, each with a supplied value of exactly its label;
//	nX further (distractor) values; convCode distractor converters.
func HarnessC03(fam, nT, nX, convCode, form, sv, mode int) {
	hOrderSites(sv)
	w := hTemplate(fam, nT, nX, convCode, form, mode&^1)
	// the exact inputs: one per parameter, same name, type and subtype
	seen := map[string]bool{}
	for _, v := range w.Vals {
		seen[hKey(v.L)] = true
	}
	var exact []hVal
	for i, p := range w.Target.In {
		if p.T == hTI {
			vnAssume(false) // a supplied value always has a concrete type
		}
		if seen[hKey(p)] {
			vnAssume(false) // a distractor with the same option key would replace the exact input (C16)
		}
		seen[hKey(p)] = true
		exact = append(exact, hVal{L: p, ID: vnPayload("exact", i)})
	}
	w.Vals = append(exact, w.Vals...)
	vnNote(w.String())
	vnOnDivergence("", "")
	args, ok := w.hBuildAll()
	if !ok {
		vnAssume(false)
	}
	// run-once providers may already hold a cached result from an earlier, unrelated use
	for _, c := range w.Convs {
		if c.Once && len(c.In) == 0 && vnBool("prewarm", c.ID) {
			w.Funcs[c.ID].Call()
			vnNoteAppend(fmt.Sprintf(" (conv%d already executed once)", c.ID))
		}
	}
	w.Log = nil
	var r Result
	if hGuardPlain(func() { r = w.Funcs[0].Call(args...) }) {
		vnAssert(false, "C03.call-with-exact-inputs-does-not-panic")
		return
	}
	vnTrace(fmt.Sprintf("outcome=%d", hOutcome(r, false)))
	vnCover("C03.call-returned")
	cls := w.classifyExact()
	vnAssertK(r.Err() == nil, "C03.call-succeeds", cls)
	ranTarget := false
	for _, ex := range w.Log {
		if ex.Fn != 0 {
			vnAssertK(false, "C03.no-converter-executed", cls)
			continue
		}
		ranTarget = true
		if len(ex.Recv) != len(w.Target.In) {
			vnAssert(false, "C03.arity")
			continue
		}
		for i, p := range w.Target.In {
			rc := ex.Recv[i]
			if p.Name != "" {
				vnAssertK(rc.T == p.T && rc.ID == exact[i].ID, "C03.named-parameter-receives-its-exact-input", cls)
			} else {
				ok := false
				for _, v := range w.Vals {
					if v.L.T == p.T && rc.T == p.T {
						ok = vnOr(ok, rc.ID == v.ID)
					}
				}
				vnAssertK(ok, "C03.typed-parameter-receives-a-supplied-value-of-its-type", cls)
			}
		}
	}
	if r.Err() == nil {
		vnAssert(ranTarget, "C03.target-executed")
	}
	if len(w.Convs) > 0 {
		vnCover("C03.with-distractor-converter")
	}
	// the same call again on the same objects (run-once distractors now hold a cached result)
	anyOnce := false
	for _, c := range w.Convs {
		if c.Once {
			anyOnce = true
		}
	}
	if !anyOnce || r.Err() != nil {
		return
	}
	w.Log = nil
	args2 := []Arg{}
	for _, v := range w.Vals {
		args2 = append(args2, NamedSubtype(v.L.Name, hMk(v.L.T, v.ID), v.L.Sub))
	}
	for _, c := range w.Convs {
		args2 = append(args2, ConverterFunc(w.Funcs[c.ID]))
	}
	var r2 Result
	if hGuardPlain(func() { r2 = w.Funcs[0].Call(args2...) }) {
		return
	}
	vnAssertK(r2.Err() == nil, "C03.second-call-succeeds", cls)
	for _, ex := range w.Log {
		if ex.Fn != 0 {
			vnAssertK(false, "C03.no-converter-executed-in-the-second-call", cls)
			continue
		}
		for i, p := range w.Target.In {
			rc := ex.Recv[i]
			if p.Name != "" {
				vnAssertK(rc.T == p.T && rc.ID == exact[i].ID, "C03.second-call-named-parameter-receives-its-exact-input", cls)
			} else {
				ok := false
				for _, v := range w.Vals {
					if v.L.T == p.T && rc.T == p.T {
						ok = vnOr(ok, rc.ID == v.ID)
					}
				}
				vnAssertK(ok, "C03.second-call-typed-parameter-receives-a-supplied-value-of-its-type", cls)
			}
		}
	}
	vnCover("C03.second-call-checked")
}

func (w *hWorld) classifyExact() string { return "" }

// HarnessC04 — a failing converter aborts the call and its error is returned verbatim.
func HarnessC04(fam, nT, nV, convCode, form, sv, mode int) {
	hOrderSites(sv)
	w := hTemplate(fam, nT, nV, convCode, form, 1|mode)
	// the target returns one value and a final error which it may report
	w.Target.HasErr = true
	w.Target.Fails = vnBool("fails", 0)
	anyPtr := w.Target.Form == hFormPtrStruct && len(w.Target.Out) > 0
	for _, c := range w.Convs {
		if c.Form == hFormPtrStruct && len(c.Out) > 0 {
			anyPtr = true
		}
	}
	if anyPtr && vnBool("nilPtrOnFail") {
		w.NilPtrOnFail = true
	}
	if mode&128 != 0 {
		w.ErrKind = hPick("errKind", 5)
	}
	vnNote(w.String() + fmt.Sprintf(" errKind=%d", w.ErrKind))
	vnOnDivergence("", "")
	r, built, panicked, _ := w.hCall()
	if !built {
		vnAssume(false)
	}
	if panicked {
		return
	}
	vnCover("C04.call-returned")
	err := r.Err()
	first := -1
	for i, ex := range w.Log {
		if ex.Err {
			first = i
			break
		}
	}
	if first >= 0 {
		fn := w.Log[first].Fn
		vnAssert(err == w.Errs[fn], "C04.error-returned-verbatim")
		vnAssert(first == len(w.Log)-1, "C04.nothing-executes-after-the-failure")
		if fn != 0 {
			for _, ex := range w.Log {
				vnAssert(ex.Fn != 0, "C04.target-not-executed-after-converter-failure")
			}
			vnCover("C04.converter-failed")
		} else {
			vnCover("C04.target-failed")
		}
	} else {
		// nobody failed: an error can only be a resolution error, and then nothing ran as target
		if err == nil {
			vnCover("C04.success")
		} else {
			for k := range w.Errs {
				vnAssert(err != w.Errs[k], "C04.no-phantom-function-error")
			}
		}
	}
	if err == nil {
		for _, ex := range w.Log {
			vnAssert(!ex.Err, "C04.no-error-means-no-failing-execution")
		}
	}
	// a run-once converter that failed keeps failing: the identical call again must
	// abort with the same error object and must not run the target
	if first >= 0 && w.Log[first].Fn != 0 && w.specOf(w.Log[first].Fn).Once {
		fn := w.Log[first].Fn
		w.Log = nil
		var r2 Result
		args2 := []Arg{}
		for _, v := range w.Vals {
			args2 = append(args2, NamedSubtype(v.L.Name, hMk(v.L.T, v.ID), v.L.Sub))
		}
		for _, c := range w.Convs {
			args2 = append(args2, ConverterFunc(w.Funcs[c.ID]))
		}
		if hGuardPlain(func() { r2 = w.Funcs[0].Call(args2...) }) {
			vnAssert(false, "C04.second-call-does-not-panic")
			return
		}
		vnAssert(r2.Err() == w.Errs[fn], "C04.memoized-failure-aborts-later-calls-with-the-same-error")
		for _, ex := range w.Log {
			vnAssert(ex.Fn != 0, "C04.target-not-executed-after-memoized-failure")
		}
		vnCover("C04.memoized-failure-checked")
	}
}

// hAcyclic reports whether the converter dependency relation (an output of c1
// may feed an input of c2, under rel) has no cycle.
func hAcyclic(w *hWorld, rel func(src, par hLabel) bool) bool {
	n := len(w.Convs)
	dep := make([][]bool, n)
	for i := range dep {
		dep[i] = make([]bool, n)
		for j := range dep[i] {
			for _, o := range w.Convs[i].Out {
				for _, p := range w.Convs[j].In {
					if rel(o, p) {
						dep[i][j] = true
					}
				}
			}
		}
	}
	for k := 0; k < n; k++ {
		for i := 0; i < n; i++ {
			for j := 0; j < n; j++ {
				if dep[i][k] && dep[k][j] {
					dep[i][j] = true
				}
			}
		}
	}
	for i := 0; i < n; i++ {
		if dep[i][i] {
			return false
		}
	}
	return true
}

func hOutcome(r Result, panicked bool) int {
	switch {
	case panicked:
		return 3
	case r.Err() == nil:
		return 0
	}
	var ue *ErrArgumentUnsatisfied
	if errors.As(r.Err(), &ue) {
		return 1
	}
	return 2
}

// HarnessC05 — conversion chaining is complete on well-behaved converter sets
// and the outcome is stable under the iteration order.
func HarnessC05(fam, nT, nV, convCode, form, sv, mode int) {
	hOrderSites(sv)
	w := hTemplate(fam, nT, nV, convCode, form, mode&^1)
	vnNote(w.String())
	singleInput := true
	for _, c := range w.Convs {
		if len(c.In) > 1 {
			singleInput = false
		}
	}
	der, fired := hDerivable(w, hPromised)
	all := true
	for _, d := range der {
		if !d {
			all = false
		}
	}
	allFire := true
	for _, f := range fired {
		if !f {
			allFire = false
		}
	}
	wellBehaved := singleInput || (hAcyclic(w, hCompat) && allFire)
	vnOnDivergence("C05.call-terminates", "")
	r, built, panicked, _ := w.hCall()
	if !built {
		vnAssume(false)
	}
	vnCover("C05.call-returned")
	if all && wellBehaved {
		vnAssert(!panicked, "C05.derivable-call-does-not-panic")
		if !panicked {
			vnAssertK(r.Err() == nil, "C05.derivable-call-succeeds", w.classifyComplete())
		}
		vnCover("C05.derivable-world")
		for _, ex := range w.Log {
			if ex.Fn != 0 {
				vnCover("C05.converter-used")
			}
		}
	}
	if wellBehaved {
		// the same call again, under an independent choice of iteration orders
		o1 := hOutcome(r, panicked)
		vnScheduleEpoch()
		w.Log = nil
		args, _ := w.hBuildAll()
		var r2 Result
		p2 := false
		func() {
			defer func() {
				if recover() != nil {
					p2 = true
				}
			}()
			r2 = w.Funcs[0].Call(args...)
		}()
		vnAssert(hOutcome(r2, p2) == o1, "C05.outcome-stable-across-iteration-orders")
		vnCover("C05.stability-checked")
	}
}

func (w *hWorld) classifyComplete() string { return "" }

// HarnessC07 — name affinity decides between equal candidates.
//
//	kind 0: nP named parameters n_i:T2 (distinct names), one type-only converter T1->T2
//	        (form symbolic), k supplied named values of type T1 with symbolic subtypes,
//	        one per name: for every parameter the value of the same name is the one converted.
//	kind 1: named parameter n:T2, converters func(T1) T2 and func(struct{N T1}) T2 in
//	        both registration orders, supplied n:T1 (and k-1 other named T1 values):
//	        the converter naming n is the one executed.
func HarnessC07(kind, k, form, sv int) {
	hOrderSites(sv)
	names := []string{"a", "b", "c", "d"}
	nP := 1
	if kind >= 10 {
		nP = kind / 10
		kind = kind % 10
	}
	var pIdx []int
	for i := 0; i < nP; i++ {
		x := hPick("n", k, i)
		for _, y := range pIdx {
			if y == x {
				vnAssume(false)
			}
		}
		pIdx = append(pIdx, x)
	}
	n := names[pIdx[0]]
	t1, t2 := hTP0, hTP1
	if vnBool("swapTypes") {
		t1, t2 = hTP1, hTP0
	}
	w := &hWorld{}
	w.Target = hFuncSpec{ID: 0, Form: hFormStruct}
	for _, x := range pIdx {
		w.Target.In = append(w.Target.In, hLabel{Name: names[x], T: t2})
	}
	for i := 0; i < k; i++ {
		sub := ""
		if kind == 0 && vnBool("valsub", i) {
			sub = "s" // a subtype on the supplied value does not matter for a subtype-less parameter
		}
		w.Vals = append(w.Vals, hVal{L: hLabel{Name: names[i], T: t1, Sub: sub}, ID: vnPayload("val", i)})
	}
	cf := form
	if form == 9 {
		cf = hPick("cform", 4)
	}
	typedConv := hFuncSpec{ID: 1, Form: cf, In: []hLabel{{T: t1}}, Out: []hLabel{{T: t2}}}
	if kind == 0 {
		w.Convs = []hFuncSpec{typedConv}
	} else {
		nf := hFormStruct
		if vnBool("namedConvBuilt") {
			nf = hFormBuilt
		}
		namedConv := hFuncSpec{ID: 2, Form: nf, In: []hLabel{{Name: n, T: t1}}, Out: []hLabel{{T: t2}}}
		if vnBool("namedFirst") {
			w.Convs = []hFuncSpec{namedConv, typedConv}
			w.Convs[0].ID, w.Convs[1].ID = 1, 2
		} else {
			w.Convs = []hFuncSpec{typedConv, namedConv}
		}
	}
	vnNote(fmt.Sprintf("kind=%d %s", kind, w.String()))
	vnOnDivergence("", "")
	r, built, panicked, _ := w.hCall()
	if !built {
		vnAssume(false)
	}
	if panicked {
		return
	}
	vnAssert(r.Err() == nil, "C07.call-succeeds")
	if r.Err() != nil {
		return
	}
	// the target's log entry tells which converted value each parameter received;
	// converter executions are matched to parameters through their output terms
	var tex *hExec
	for i := range w.Log {
		if w.Log[i].Fn == 0 {
			tex = &w.Log[i]
		}
	}
	vnAssert(tex != nil, "C07.target-ran")
	if tex == nil {
		return
	}
	for pi, x := range pIdx {
		// some converter execution fed by the same-named value produced what parameter pi received
		ok := false
		for _, ex := range w.Log {
			if ex.Fn == 0 || len(ex.Recv) != 1 || len(ex.Out) != 1 {
				continue
			}
			spec := w.specOf(ex.Fn)
			if kind == 1 && spec.In[0].Name != n {
				continue
			}
			if ex.Recv[0].T == t1 {
				ok = vnOr(ok, vnAnd(ex.Recv[0].ID == w.Vals[x].ID, tex.Recv[pi].ID == ex.Out[0].ID))
			}
		}
		vnAssert(ok, "C07.same-named-value-is-converted-for-each-parameter")
	}
	for _, ex := range w.Log {
		if ex.Fn == 0 {
			continue
		}
		if kind == 1 {
			vnAssert(w.specOf(ex.Fn).In[0].Name == n, "C07.converter-naming-the-parameter-is-executed")
		}
	}
	vnCover("C07.conversion-checked")
}

// HarnessC13 — the unsatisfied-argument error reports what is truly missing
// and what was given.
func HarnessC13(fam, nT, nV, convCode, form, sv, mode int) {
	hOrderSites(sv)
	w := hTemplate(fam, nT, nV, convCode, form, mode&^1)
	vnNote(w.String())
	// hopeless parameter: no supplied value and no converter output compat-matches it
	hopeless := make([]bool, len(w.Target.In))
	anyHopeless := false
	for i, p := range w.Target.In {
		h := true
		for _, v := range w.Vals {
			if hCompat(v.L, p) {
				h = false
			}
		}
		for _, c := range w.Convs {
			for _, o := range c.Out {
				if hCompat(o, p) {
					h = false
				}
			}
		}
		hopeless[i] = h
		if h {
			anyHopeless = true
		}
	}
	if !anyHopeless {
		vnAssume(false)
	}
	derP, _ := hDerivable(w, hPromised)
	vnOnDivergence("", "")
	r, built, panicked, _ := w.hCall()
	if !built {
		vnAssume(false)
	}
	if panicked {
		return
	}
	vnCover("C13.hopeless-world")
	err := r.Err()
	var ue *ErrArgumentUnsatisfied
	ok := err != nil && errors.As(err, &ue)
	vnAssert(ok, "C13.dedicated-error")
	if !ok {
		return
	}
	lbl := func(v *Value) (hLabel, bool) {
		for t := 0; t < len(hTypeNames); t++ {
			if v.Type == hType(t) {
				return hLabel{Name: v.Name, T: t, Sub: v.Subtype}, true
			}
		}
		return hLabel{}, false
	}
	// Args ∋ every hopeless parameter, Args ⊆ target parameters, never one with an
	// exactly matching supplied value, never one derivable under the promised relation
	for i, p := range w.Target.In {
		if !hopeless[i] {
			continue
		}
		found := false
		for _, a := range ue.Args {
			if l, ok := lbl(a); ok && l == p {
				found = true
			}
		}
		vnAssert(found, "C13.args-contain-every-hopeless-parameter")
	}
	msg := err.Error()
	for _, a := range ue.Args {
		l, ok := lbl(a)
		vnAssert(ok, "C13.arg-has-pool-type")
		if !ok {
			continue
		}
		idx := -1
		for i, p := range w.Target.In {
			if p == l {
				idx = i
			}
		}
		vnAssert(idx >= 0, "C13.args-are-target-parameters")
		if idx >= 0 {
			vnAssert(!derP[idx], "C13.args-are-genuinely-underivable")
			for _, v := range w.Vals {
				vnAssert(v.L != l, "C13.no-arg-with-an-exactly-matching-supplied-value")
			}
		}
		vnAssert(hContains(msg, a.String()), "C13.message-mentions-each-missing-argument")
	}
	// Inputs = exactly the supplied values (as labels)
	vnAssert(len(ue.Inputs) == len(w.Vals), "C13.inputs-count")
	for _, v := range w.Vals {
		cnt := 0
		for _, in := range ue.Inputs {
			if l, ok := lbl(in); ok && l == v.L {
				cnt++
			}
		}
		vnAssert(cnt == 1, "C13.inputs-are-exactly-the-supplied-values")
	}
	// Converters ⊇ supplied converters
	for _, c := range w.Convs {
		found := false
		for _, f := range ue.Converters {
			if f == w.Funcs[c.ID] {
				found = true
			}
		}
		vnAssert(found, "C13.converters-contain-every-supplied-converter")
	}
	vnAssert(ue.Func == w.Funcs[0], "C13.func-is-the-target")
	vnCover("C13.error-checked")
}

func hContains(s, sub string) bool {
	for i := 0; i+len(sub) <= len(s); i++ {
		if s[i:i+len(sub)] == sub {
			return true
		}
	}
	return false
}
