//go:build verif

package argmapper

import (
	"errors"
	"fmt"
	"reflect"
)

// hLabelOfValue maps a library Value back to a pool label.
func hLabelOfValue(v Value) (hLabel, bool) {
	for t := 0; t < len(hTypeNames); t++ {
		if v.Type == hType(t) {
			return hLabel{Name: v.Name, T: t, Sub: v.Subtype}, true
		}
	}
	return hLabel{}, false
}

// hSymFilter is an uninterpreted predicate over values: one symbolic Bool per
// (name, type, subtype) it is asked about, so one path covers every filter
// that answers the questions actually asked in the same way.
func hSymFilter(tag string, asked *[]hLabel, answers *[]bool) FilterFunc {
	return func(v Value) bool {
		l, ok := hLabelOfValue(v)
		if !ok {
			return false
		}
		for i, a := range *asked {
			if a == l {
				return (*answers)[i]
			}
		}
		ni, si := 0, 0
		for i, n := range []string{"", "a", "b"} {
			if n == l.Name {
				ni = i
			}
		}
		for i, s := range []string{"", "s", "S"} {
			if s == l.Sub {
				si = i
			}
		}
		ans := false
		if vnBool(tag, ni, l.T, si) {
			ans = true
		}
		*asked = append(*asked, l)
		*answers = append(*answers, ans)
		return ans
	}
}

// hLibTypeFilter builds the input filter from the library's own combinators: a
// symbolic subset of the types that occur in the world (plus, for hList / []int,
// the assignable twin), as FilterOr(FilterType(t)...) — symbolically wrapped once
// more in FilterAnd. Every answer is recorded like hSymFilter's and compared with
// the documented meaning: the value's type is in the set, or implements an
// interface type in the set.
func hLibTypeFilter(tag string, present []int, asked *[]hLabel, answers *[]bool) FilterFunc {
	allowed := map[int]bool{}
	var fs []FilterFunc
	for _, t := range present {
		if vnBool(tag, t) {
			allowed[t] = true
			fs = append(fs, FilterType(hType(t)))
		}
	}
	lib := FilterOr(fs...)
	if vnBool(tag + "And") {
		lib = FilterAnd(lib, FilterOr(fs...))
	}
	return func(v Value) bool {
		ans := lib(v)
		l, ok := hLabelOfValue(v)
		if !ok {
			return ans
		}
		spec := allowed[l.T] || (allowed[hTI] && l.T == hTP2)
		vnAssert(ans == spec, "C08.type-set-filter-admits-exactly-its-types-and-their-implementers")
		if _, known := hAnswer(*asked, *answers, l); !known {
			*asked = append(*asked, l)
			*answers = append(*answers, ans)
		}
		return ans
	}
}

// hAssignTwin: the other type of an (unnamed type, defined type with that underlying
// type) pair of the pool — mutually assignable yet different types; -1 if none.
func hAssignTwin(t int) int {
	switch t {
	case hTList:
		return hTSlice
	case hTSlice:
		return hTList
	}
	return -1
}

func hAnswer(asked []hLabel, answers []bool, l hLabel) (bool, bool) {
	for i, a := range asked {
		if a == l {
			return answers[i], true
		}
	}
	return false, false
}

// HarnessC08 — Redefine yields a callable function over exactly the missing,
// permitted inputs. Domain of the property: converters with at most one input,
// no subtypes, each name denoting a single type.
//
//	filt 0: no filters, 1: symbolic input filter, 2: symbolic input and output filters,
//	     4: input filter = a symbolic set of types built from FilterType/FilterOr/FilterAnd
func HarnessC08(fam, nT, nV, convCode, form, filt int) {
	hOrderSites(0)
	outF := filt == 2 || filt == 3 // an output filter is present (filt 4: library type-set input filter only)
	w := hTemplate(fam, nT, nV, convCode, form, 0)
	// the target also produces outputs so that the output filter has subjects, and
	// (symbolically) declares a final error, which is not an output
	w.Target.Out = []hLabel{{T: hTP2}, {T: hTP3}}
	if outF && vnBool("namedOutput") {
		w.Target.Out[0].Name = "o" // named outputs are outputs too (struct forms only)
	}
	if outF && vnBool("targetHasErr") {
		w.Target.HasErr = true
	}
	// each name denotes a single type
	nameType := map[string]int{}
	all := append([]hLabel{}, w.Target.In...)
	for _, v := range w.Vals {
		all = append(all, v.L)
	}
	for _, c := range w.Convs {
		if len(c.In) > 1 {
			vnAssume(false)
		}
		all = append(all, c.In...)
		all = append(all, c.Out...)
	}
	for _, l := range all {
		if l.Sub != "" {
			vnAssume(false)
		}
		if l.Name == "" {
			continue
		}
		if t, ok := nameType[l.Name]; ok && t != l.T {
			vnAssume(false)
		}
		nameType[l.Name] = l.T
	}
	vnNote(w.String())
	args, ok := w.hBuildAll()
	if !ok {
		vnAssume(false)
	}
	var askedIn, askedOut []hLabel
	var ansIn, ansOut []bool
	rargs := append([]Arg{}, args...)
	if filt == 4 {
		// the input filter is a set of types built from the library's combinators
		seen := map[int]bool{}
		var present []int
		for _, l := range all {
			for _, t := range []int{l.T, hAssignTwin(l.T)} {
				if t >= 0 && !seen[t] {
					seen[t] = true
					present = append(present, t)
				}
			}
		}
		rargs = append(rargs, FilterInput(hLibTypeFilter("allow", present, &askedIn, &ansIn)))
		vnCover("C08.library-type-filter")
	} else if filt >= 1 {
		rargs = append(rargs, FilterInput(hSymFilter("fin", &askedIn, &ansIn)))
	}
	if outF {
		rargs = append(rargs, FilterOutput(hSymFilter("fout", &askedOut, &ansOut)))
	}
	vnOnDivergence("", "")
	var nf *Func
	var err error
	if hGuardPlain(func() { nf, err = w.Funcs[0].Redefine(rargs...) }) {
		return // C06's subject
	}
	vnAssert(len(w.Log) == 0, "C08.redefine-executes-nothing")
	vnCover("C08.redefine-returned")
	// every output of the target is shown to the output filter
	if outF {
		for _, o := range w.Target.Out {
			_, known := hAnswer(askedOut, ansOut, o)
			vnAssert(known, "C08.every-output-is-filtered")
		}
	}
	// (3) an output rejected by the output filter => error
	if outF {
		for i, l := range askedOut {
			if !ansOut[i] {
				_ = l
				vnAssert(err != nil, "C08.rejected-output-fails-redefine")
				vnCover("C08.output-filter-rejection")
			}
		}
	}
	outOK := true
	for i := range askedOut {
		if !ansOut[i] {
			outOK = false
		}
	}
	// (4) the filter admits every target parameter (and no output is rejected) => success
	admitsAll := true
	for _, p := range w.Target.In {
		if filt >= 1 {
			a, known := hAnswer(askedIn, ansIn, p)
			if !known || !a {
				admitsAll = false
			}
		}
	}
	if admitsAll && outOK {
		vnAssertK(err == nil, "C08.succeeds-when-every-parameter-is-permitted", w.classifyRedefine(nil))
	}
	if err != nil {
		vnCover("C08.redefine-failed")
		return
	}
	vnCover("C08.redefine-succeeded")
	// (1) every declared input passes the filter and is not a supplied key
	ins := nf.Input().Values()
	var decl []hLabel
	for _, v := range ins {
		l, ok := hLabelOfValue(v)
		vnAssert(ok, "C08.input-of-pool-type")
		if !ok {
			return
		}
		decl = append(decl, l)
		if filt >= 1 {
			a, known := hAnswer(askedIn, ansIn, l)
			vnAssertK(known && a, "C08.declared-input-passes-the-input-filter", w.classifyRedefine(decl))
		}
		for _, s := range w.Vals {
			vnAssertK(hKey(s.L) != hKey(l), "C08.declared-input-is-not-an-already-supplied-value", w.classifyRedefine(decl))
		}
	}
	// (2) calling the new function with a value for each declared input never fails
	// for lack of an argument and yields the original function's results
	var extra []Arg
	var extraVals []hVal
	for i, l := range decl {
		if l.T == hTI {
			// an interface-typed input is fed a type-only value of the implementing type
			// (Named() records the value's dynamic type, so a named value can never have
			// an interface type; the library matches named values by exact type)
			extraVals = append(extraVals, hVal{L: hLabel{"", hTP2, ""}, ID: vnPayload("fresh", i)})
		} else {
			extraVals = append(extraVals, hVal{L: l, ID: vnPayload("fresh", i)})
		}
		ev := extraVals[len(extraVals)-1]
		extra = append(extra, NamedSubtype(ev.L.Name, hMk(ev.L.T, ev.ID), ev.L.Sub))
	}
	w.Log = nil
	var r1 Result
	if hGuardPlain(func() { r1 = nf.Call(extra...) }) {
		vnAssertK(false, "C08.redefined-function-call-does-not-panic", w.classifyRedefine(decl))
		return
	}
	log1 := w.Log
	// "the original function's own results" are unique only when no parameter has two
	// compatible sources to choose from (the redefined function resolves its own
	// parameters too, so its declared inputs count as parameters)
	var allSrc []hLabel
	for _, v := range w.Vals {
		allSrc = append(allSrc, v.L)
	}
	for _, v := range extraVals {
		allSrc = append(allSrc, v.L)
	}
	for _, c := range w.Convs {
		allSrc = append(allSrc, c.Out...)
	}
	pars := append(append([]hLabel{}, w.Target.In...), decl...)
	for _, c := range w.Convs {
		pars = append(pars, c.In...)
	}
	unique := true
	for _, p := range pars {
		n := 0
		for _, s := range allSrc {
			if hCompat(s, p) {
				n++
			}
		}
		if n > 1 {
			unique = false
		}
	}
	// every function executed by the redefined function obeys C01 too: its arguments
	// are compatible sources (the original values plus the fresh ones). Known finding P:
	// when a parameter has two compatible sources, the redefined function may resolve its
	// own type-only input from a differently named value and pass it on re-labelled.
	if !unique {
		w.provFinding = "P"
	}
	savedVals := w.Vals
	w.Vals = append(append([]hVal{}, w.Vals...), extraVals...)
	w.hProvenance("C08.provenance")
	w.Vals = savedVals
	w.provFinding = ""
	var ue *ErrArgumentUnsatisfied
	vnAssertK(!(r1.Err() != nil && errors.As(r1.Err(), &ue)), "C08.redefined-function-never-lacks-an-argument", w.classifyRedefine(decl))
	w.Log = nil
	vnScheduleRestart()
	r2 := w.Funcs[0].Call(append(append([]Arg{}, args...), extra...)...)
	log2 := w.Log
	if r1.Err() == nil && r2.Err() == nil && unique {
		vnAssert(r1.Len() == r2.Len(), "C08.same-result-arity")
		ids1, ids2 := hResultIDs(r1), hResultIDs(r2)
		vnAssert(len(ids1) == len(ids2) && len(ids1) == 2, "C08.same-result-shape")
		if len(ids1) == len(ids2) {
			for i := range ids1 {
				vnAssert(ids1[i].T == ids2[i].T && ids1[i].ID == ids2[i].ID, "C08.same-results-as-the-original-with-those-values")
			}
		}
		vnAssert(len(log1) == len(log2), "C08.same-executions-as-the-original")
		vnCover("C08.redefined-call-checked")
	}
	_ = fmt.Sprint
	_ = reflect.TypeOf
}

// classifyRedefine names the known finding whose input shape is present.
func (w *hWorld) classifyRedefine(decl []hLabel) string {
	// known finding Q: a declared input that is NAMED and of INTERFACE type cannot be passed
	// on by the redefined function (its closure re-supplies it with Named(), which records
	// the value's dynamic type, and named values are matched by exact type)
	for _, l := range decl {
		if l.Name != "" && l.T == hTI {
			return "Q"
		}
	}
	return ""
}
