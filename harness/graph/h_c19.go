//go:build verif

package graph

import "fmt"

// C19 — graph mutations keep the edge structure consistent; copies are
// independent; reversed views share state.
//
// One inductive step: the pre-state is an ARBITRARY state satisfying the
// representation invariant Inv over a universe of n vertex ids (written straight
// into the three maps of the real Graph), then exactly one operation with
// symbolic arguments runs on the real code, and the post-state is compared cell
// by cell with a plain adjacency model updated by the operation's specification.
// Since every reachable state satisfies Inv (it holds of the empty graph and is
// re-established by every operation), one step from all Inv-states covers
// operation histories of any length over n vertices.

// vnHV is a vertex whose identity (pointer) differs from its hash code.
type vnHV struct {
	H   int
	Tag int
}

func (v *vnHV) Hashcode() interface{} { return v.H }

const c19Max = 4

type c19Model struct {
	n   int
	v   [c19Max]bool         // vertex present
	rep [c19Max]Vertex       // representative stored for the id
	e   [c19Max][c19Max]bool // edge present
	w   [c19Max][c19Max]int  // its weight
}

var c19ids = [c19Max]int{0, 1, 2, 3}

func c19Pick(name string, n int) int { return c19ids[vnChoice(name, n)] }

// c19Pre builds an arbitrary Inv-state in g and the same state in the model.
func c19Pre(n int, hv bool) (*Graph, *c19Model, string) {
	g := &Graph{}
	m := &c19Model{n: n}
	desc := "V:"
	any := false
	for i := 0; i < n; i++ {
		if vnBool("v", i) {
			m.v[i] = true
			any = true
		}
	}
	// the zero Graph (nil maps) is the other representation of the empty graph
	if any || vnBool("inited") {
		g.init()
	}
	for i := 0; i < n; i++ {
		if !m.v[i] {
			continue
		}
		var rep Vertex = i
		if hv && vnBool("hvrep", i) {
			rep = &vnHV{H: i, Tag: 100 + i}
			desc += "h"
		}
		m.rep[i] = rep
		g.hash[i] = rep
		g.adjacencyOut[i] = map[interface{}]int{}
		g.adjacencyIn[i] = map[interface{}]int{}
		desc += fmt.Sprint(i)
	}
	desc += " E:"
	for i := 0; i < n; i++ {
		for j := 0; j < n; j++ {
			if m.v[i] && m.v[j] && vnBool("e", i, j) {
				w := vnInt("w", i, j)
				m.e[i][j] = true
				m.w[i][j] = w
				g.adjacencyOut[i][j] = w
				g.adjacencyIn[j][i] = w
				desc += fmt.Sprintf("%d>%d ", i, j)
			}
		}
	}
	return g, m, desc
}

func (m *c19Model) clone() *c19Model { c := *m; return &c }

func (m *c19Model) addVertex(i int, rep Vertex, overwrite bool) {
	if !m.v[i] {
		m.v[i] = true
		m.rep[i] = rep
		return
	}
	if overwrite {
		m.rep[i] = rep
	}
}

func (m *c19Model) setEdge(a, b, w int) { m.e[a][b] = true; m.w[a][b] = w }
func (m *c19Model) delEdge(a, b int)    { m.e[a][b] = false }
func (m *c19Model) delVertex(x int) {
	m.v[x] = false
	m.rep[x] = nil
	for k := 0; k < m.n; k++ {
		m.e[x][k] = false
		m.e[k][x] = false
	}
}

func (m *c19Model) reversed() *c19Model {
	r := &c19Model{n: m.n, v: m.v, rep: m.rep}
	for i := 0; i < m.n; i++ {
		for j := 0; j < m.n; j++ {
			r.e[j][i] = m.e[i][j]
			r.w[j][i] = m.w[i][j]
		}
	}
	return r
}

// c19Check asserts Inv on g and equality with the model, both on the raw maps
// and through the public accessors.
func c19Check(g *Graph, m *c19Model, tag string) {
	n := m.n
	for i := 0; i < n; i++ {
		_, okO := g.adjacencyOut[i]
		_, okI := g.adjacencyIn[i]
		rep, okH := g.hash[i]
		vnAssert(okO == m.v[i], tag+".out-keyset")
		vnAssert(okI == m.v[i], tag+".in-keyset")
		vnAssert(okH == m.v[i], tag+".hash-keyset")
		if m.v[i] {
			vnAssert(rep == m.rep[i], tag+".representative")
			vnAssert(hashcode(rep) == interface{}(i), tag+".hash-consistent")
			vnAssert(g.Vertex(i) == m.rep[i], tag+".Vertex()")
		} else if g.hash != nil {
			vnAssert(g.Vertex(i) == nil, tag+".Vertex()-absent")
		}
		for j := 0; j < n; j++ {
			wo, eo := g.adjacencyOut[i][j]
			wi, ei := g.adjacencyIn[j][i]
			vnAssert(eo == m.e[i][j], tag+".out-edge-presence")
			vnAssert(ei == m.e[i][j], tag+".in-edge-mirror")
			if m.e[i][j] {
				vnAssert(wo == m.w[i][j], tag+".out-edge-weight")
				vnAssert(wi == m.w[i][j], tag+".in-edge-weight")
			}
		}
		if len(g.adjacencyOut[i]) > 0 || len(g.adjacencyIn[i]) > 0 {
			vnAssert(m.v[i], tag+".edges-of-absent-vertex")
		}
	}
	vnAssert(len(g.adjacencyOut) == len(g.hash), tag+".no-extra-out-keys")
	vnAssert(len(g.adjacencyIn) == len(g.hash), tag+".no-extra-in-keys")
	// public accessors
	cnt := 0
	for i := 0; i < n; i++ {
		if m.v[i] {
			cnt++
		}
	}
	vs := g.Vertices()
	vnAssert(len(vs) == cnt, tag+".Vertices-count")
	for i := 0; i < n; i++ {
		if !m.v[i] {
			continue
		}
		found := 0
		for _, v := range vs {
			if v == m.rep[i] {
				found++
			}
		}
		vnAssert(found == 1, tag+".Vertices-member")
		outs := g.OutEdges(m.rep[i])
		ins := g.InEdges(m.rep[i])
		no, ni := 0, 0
		for j := 0; j < n; j++ {
			if m.e[i][j] {
				no++
				k := 0
				for _, v := range outs {
					if v == m.rep[j] {
						k++
					}
				}
				vnAssert(k == 1, tag+".OutEdges-member")
			}
			if m.e[j][i] {
				ni++
				k := 0
				for _, v := range ins {
					if v == m.rep[j] {
						k++
					}
				}
				vnAssert(k == 1, tag+".InEdges-member")
			}
		}
		vnAssert(len(outs) == no, tag+".OutEdges-count")
		vnAssert(len(ins) == ni, tag+".InEdges-count")
	}
}

// c19Vertex returns the vertex value used as an argument for id x: the plain
// int or (hv) a fresh hashable vertex with the same hash code but another identity.
func c19Vertex(x int, hv bool, name string) Vertex {
	if hv && vnBool(name) {
		return &vnHV{H: x, Tag: 200 + x}
	}
	return x
}

// c19Apply runs one mutation on the real graph and on the model.
// op: 0 Add 1 AddOverwrite 2 AddEdge 3 AddEdgeWeighted 4 RemoveEdge 5 Remove
func c19Apply(g *Graph, m *c19Model, op int, n int, hv bool, sfx string) string {
	switch op {
	case 0:
		x := c19Pick("x"+sfx, n)
		v := c19Vertex(x, hv, "xhv"+sfx)
		r := g.Add(v)
		vnAssert(r == v, "C19.Add-returns-argument")
		m.addVertex(x, v, false)
		return fmt.Sprintf("Add(%d)", x)
	case 1:
		x := c19Pick("x"+sfx, n)
		v := c19Vertex(x, hv, "xhv"+sfx)
		r := g.AddOverwrite(v)
		vnAssert(r == v, "C19.AddOverwrite-returns-argument")
		m.addVertex(x, v, true)
		return fmt.Sprintf("AddOverwrite(%d)", x)
	case 2:
		a, b := c19Pick("a"+sfx, n), c19Pick("b"+sfx, n)
		if !m.v[a] || !m.v[b] {
			vnAssume(false) // documented precondition: both endpoints are in the graph
		}
		g.AddEdge(m.rep[a], m.rep[b])
		m.setEdge(a, b, 1)
		return fmt.Sprintf("AddEdge(%d,%d)", a, b)
	case 3:
		a, b := c19Pick("a"+sfx, n), c19Pick("b"+sfx, n)
		if !m.v[a] || !m.v[b] {
			vnAssume(false)
		}
		w := vnInt("wnew" + sfx)
		g.AddEdgeWeighted(m.rep[a], m.rep[b], w)
		m.setEdge(a, b, w)
		return fmt.Sprintf("AddEdgeWeighted(%d,%d,w)", a, b)
	case 4:
		a, b := c19Pick("a"+sfx, n), c19Pick("b"+sfx, n)
		g.RemoveEdge(c19Vertex(a, hv, "ahv"+sfx), c19Vertex(b, hv, "bhv"+sfx))
		m.delEdge(a, b)
		return fmt.Sprintf("RemoveEdge(%d,%d)", a, b)
	case 5:
		x := c19Pick("x"+sfx, n)
		v := c19Vertex(x, hv, "xhv"+sfx)
		r := g.Remove(v)
		vnAssert(r == v, "C19.Remove-returns-argument")
		m.delVertex(x)
		return fmt.Sprintf("Remove(%d)", x)
	}
	vnAssume(false)
	return ""
}

// HarnessC19: n vertices; op 0..5 single mutation; 6 Copy (+ mutation of the
// copy, then of the original); 7 Reverse (+ mutation through the view);
// 8 Reverse twice; 9 two mutations in sequence (sanity of the inductive step);
// 10 Reverse of a graph with at most one vertex, then three mutations through the view.
// hv != 0 adds hashable vertices (identity != hash code).
func HarnessC19(n, op, hv int) {
	g, m, desc := c19Pre(n, hv != 0)
	// the pre-state must satisfy Inv by construction (vacuity guard for the step)
	vnNote(fmt.Sprintf("n=%d op=%d %s", n, op, desc))
	c19Check(g, m, "C19.pre")
	vnCover("C19.pre-state-built")
	what := ""
	switch {
	case op <= 5:
		what = c19Apply(g, m, op, n, hv != 0, "")
		c19Check(g, m, "C19.post")
	case op == 6:
		orig := m.clone()
		c := g.Copy()
		c19Check(c, m, "C19.copy-equals-original")
		sub := vnChoice("subop", 6)
		what = "Copy; copy." + c19Apply(c, m, sub, n, hv != 0, "")
		c19Check(c, m, "C19.copy-post")
		c19Check(g, orig, "C19.original-untouched-by-copy-mutation")
		// and the other direction: mutate the original, the copy must not move
		sub2 := vnChoice("subop2", 6)
		what += "; orig." + c19Apply(g, orig, sub2, n, hv != 0, "2")
		c19Check(g, orig, "C19.original-post")
		c19Check(c, m, "C19.copy-untouched-by-original-mutation")
	case op == 7:
		if g.hash == nil {
			vnAssume(false) // Reverse of a never-initialised Graph shares nil maps: nothing to share yet
		}
		r := g.Reverse()
		rm := m.reversed()
		c19Check(r, rm, "C19.reverse-is-mirror")
		sub := vnChoice("subop", 6)
		what = "Reverse; view." + c19Apply(r, rm, sub, n, hv != 0, "")
		c19Check(r, rm, "C19.view-post")
		c19Check(g, rm.reversed(), "C19.original-sees-view-mutation")
		// mutate the original: the view must follow
		m2 := rm.reversed()
		sub2 := vnChoice("subop2", 6)
		what += "; orig." + c19Apply(g, m2, sub2, n, hv != 0, "2")
		c19Check(g, m2, "C19.original-post")
		c19Check(r, m2.reversed(), "C19.view-sees-original-mutation")
	case op == 8:
		rr := g.Reverse().Reverse()
		what = "Reverse.Reverse"
		c19Check(rr, m, "C19.reverse-twice-identity")
		vnAssert(len(rr.hash) == len(g.hash), "C19.reverse-twice-same-vertices")
	case op == 10:
		// a view taken when the graph holds little or nothing, then a HISTORY of three
		// mutations through the view: both sides must stay mirrors after every step
		// (one step from an empty graph cannot create an edge, so the one-step
		// harness of op 7 cannot see which way a view of an empty graph points)
		if g.hash == nil {
			vnAssume(false)
		}
		cnt := 0
		for i := 0; i < n; i++ {
			if m.v[i] {
				cnt++
			}
		}
		if cnt > 1 {
			vnAssume(false)
		}
		r := g.Reverse()
		rm := m.reversed()
		what = "Reverse (of a graph with <=1 vertex)"
		for step := 0; step < 3; step++ {
			sub := vnChoice("subop", 6, step)
			what += "; view." + c19Apply(r, rm, sub, n, hv != 0, fmt.Sprint(step))
			c19Check(r, rm, "C19.view-history-post")
			c19Check(g, rm.reversed(), "C19.original-sees-view-history")
		}
	case op == 9:
		s1 := vnChoice("subop", 6)
		what = c19Apply(g, m, s1, n, hv != 0, "")
		c19Check(g, m, "C19.post1")
		s2 := vnChoice("subop2", 6)
		what += "; " + c19Apply(g, m, s2, n, hv != 0, "2")
		c19Check(g, m, "C19.post2")
	}
	vnNote(fmt.Sprintf("n=%d %s | %s", n, desc, what))
	vnTrace(fmt.Sprintf("vertices=%d", len(g.Vertices())))
	vnCover("C19.step-checked")
}
