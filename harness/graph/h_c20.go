//go:build verif

package graph

import (
	"errors"
	"fmt"
)

// C20 — traversals and orderings are exact.
//
// kind  0: DFS with symbolic descend/decline answers of the callback
//       1: KahnSort (permutation with all edges forward, panic iff cyclic) and
//          StronglyConnected (partition into mutual-reachability classes)
//       2: TopoShortestPath(KahnSort()) vs Dijkstra on single-rooted DAGs, symbolic weights
//       3: DFS whose callback fails at a symbolic vertex (error is returned, traversal stops)
// loops 1: self-loops are part of the symbolic edge set
// sched as in C18 (0 insertion, 1 perm(3) at the traversal's own ranges + flip elsewhere, 3 flip per site)

const c20Max = 4

type c20G struct {
	n     int
	e     [c20Max][c20Max]bool
	w     [c20Max][c20Max]int
	reach [c20Max][c20Max]bool // reach[i][j]: a path of length >= 1 from i to j
	desc  string
}

func c20Sched(sched int) {
	switch sched {
	case 1:
		for _, s := range []string{"Graph.dfs#0", "Graph.KahnSort#0", "Graph.KahnSort#1", "Graph.OutEdges#0", "Graph.Vertices#0", "Graph.TopoShortestPath#0", "Graph.Dijkstra#0", "Graph.Dijkstra#1"} {
			vnSchedule(s, vnPerm, 3)
		}
	case 2:
		for _, s := range []string{"Graph.dfs#0", "Graph.KahnSort#0", "Graph.KahnSort#1", "Graph.OutEdges#0", "Graph.Vertices#0", "Graph.TopoShortestPath#0", "Graph.Dijkstra#0", "Graph.Dijkstra#1"} {
			vnSchedule(s, vnFlip, 0)
		}
	case 3:
		vnScheduleDefault(vnFlip, 0)
	case 4:
		vnScheduleDefault(vnSeeded, 0)
		vnScheduleSeed(1)
	}
}

func c20Build(n, loops int, weights bool) (*Graph, *c20G) {
	g := &Graph{}
	m := &c20G{n: n}
	for i := 0; i < n; i++ {
		g.Add(i)
	}
	for i := 0; i < n; i++ {
		for j := 0; j < n; j++ {
			if i == j && loops == 0 {
				continue
			}
			if !vnBool("e", i, j) {
				continue
			}
			m.e[i][j] = true
			w := 1
			if weights {
				w = vnInt("w", i, j)
				vnAssume(0 <= w)
				vnAssume(w <= 1000000)
			}
			m.w[i][j] = w
			g.AddEdgeWeighted(i, j, w)
			m.desc += fmt.Sprintf("%d>%d ", i, j)
		}
	}
	for i := 0; i < n; i++ {
		for j := 0; j < n; j++ {
			m.reach[i][j] = m.e[i][j]
		}
	}
	for k := 0; k < n; k++ {
		for i := 0; i < n; i++ {
			for j := 0; j < n; j++ {
				if m.reach[i][k] && m.reach[k][j] {
					m.reach[i][j] = true
				}
			}
		}
	}
	return g, m
}

func (m *c20G) cyclic() bool {
	for i := 0; i < m.n; i++ {
		if m.reach[i][i] {
			return true
		}
	}
	return false
}

func HarnessC20(n, kind, loops, sched int) {
	c20Sched(sched)
	switch kind {
	case 0:
		c20DFS(n, loops, false)
	case 1:
		c20KahnSCC(n, loops)
	case 2:
		c20Topo(n)
	case 3:
		c20DFS(n, loops, true)
	}
}

var errC20 = errors.New("c20 callback failure")

func c20DFS(n, loops int, withErr bool) {
	g, m := c20Build(n, loops, false)
	start := c19ids[vnChoice("start", n)]
	var descend [c20Max]bool
	for i := 0; i < n; i++ {
		descend[i] = true
	}
	errAt := -1
	if withErr {
		errAt = c19ids[vnChoice("errAt", n)]
	}
	vnNote(fmt.Sprintf("DFS n=%d start=%d errAt=%d edges: %s", n, start, errAt, m.desc))
	var reported [c20Max]int
	var descents [c20Max]int
	asked := [c20Max]bool{}
	failed := false
	afterFail := 0
	err := g.DFS(start, func(v Vertex, next func() error) error {
		i, ok := v.(int)
		vnAssert(ok, "C20.dfs-callback-gets-a-vertex")
		if !ok {
			return nil
		}
		if failed {
			afterFail++
		}
		reported[i]++
		if i == errAt {
			failed = true
			return errC20
		}
		// the callback's answer is an arbitrary (symbolic) function of the vertex
		if !asked[i] {
			asked[i] = true
			if vnBool("descend", i) {
				descend[i] = true
			} else {
				descend[i] = false
			}
		}
		if descend[i] {
			descents[i]++
			return next()
		}
		return nil
	})
	if withErr {
		if failed {
			vnAssert(err == errC20, "C20.dfs-returns-callback-error")
			vnAssert(afterFail == 0, "C20.dfs-stops-after-error")
			vnCover("C20.dfs-error-path")
		} else {
			vnAssert(err == nil, "C20.dfs-no-spurious-error")
		}
		return
	}
	vnAssert(err == nil, "C20.dfs-no-spurious-error")
	// oracle: w != start is reported iff reachable from start through descending interior vertices
	var want [c20Max]bool
	var frontier [c20Max]bool // vertices whose out-edges are followed
	frontier[start] = true
	for round := 0; round <= n; round++ {
		for i := 0; i < n; i++ {
			if !frontier[i] {
				continue
			}
			for j := 0; j < n; j++ {
				if m.e[i][j] && j != start {
					want[j] = true
					if descend[j] {
						frontier[j] = true
					}
				}
			}
		}
	}
	for i := 0; i < n; i++ {
		if i == start {
			vnAssert(reported[i] == 0, "C20.dfs-start-not-reported")
			continue
		}
		vnAssert((reported[i] > 0) == want[i], "C20.dfs-reports-exactly-reachable")
		if want[i] && descend[i] {
			vnAssert(descents[i] == 1, "C20.dfs-descends-once")
			vnAssert(reported[i] == 1, "C20.dfs-reports-descended-once")
		} else {
			vnAssert(descents[i] == 0, "C20.dfs-no-descent-into-declined-or-unreachable")
		}
		if want[i] {
			vnCover("C20.dfs-reported-vertex")
		}
		if want[i] && !descend[i] {
			vnCover("C20.dfs-declined-vertex")
		}
	}
	vnCover("C20.dfs-checked")
}

func c20KahnSCC(n, loops int) {
	g, m := c20Build(n, loops, false)
	vnNote(fmt.Sprintf("Kahn/SCC n=%d edges: %s", n, m.desc))
	// --- KahnSort
	var order TopoOrder
	panicked := false
	func() {
		defer func() {
			if r := recover(); r != nil {
				panicked = true
			}
		}()
		order = g.KahnSort()
	}()
	if m.cyclic() {
		vnAssert(panicked, "C20.kahn-refuses-cyclic-graph")
		vnCover("C20.kahn-cyclic")
	} else {
		vnAssert(!panicked, "C20.kahn-accepts-acyclic-graph")
		if !panicked {
			vnAssert(len(order) == n, "C20.kahn-lists-every-vertex")
			var pos [c20Max]int
			var cnt [c20Max]int
			for p, v := range order {
				i, ok := v.(int)
				vnAssert(ok, "C20.kahn-vertex-type")
				if ok {
					pos[i] = p
					cnt[i]++
				}
			}
			for i := 0; i < n; i++ {
				vnAssert(cnt[i] == 1, "C20.kahn-each-vertex-once")
				for j := 0; j < n; j++ {
					if m.e[i][j] {
						vnAssert(pos[i] < pos[j], "C20.kahn-edges-point-forward")
					}
				}
			}
			vnCover("C20.kahn-acyclic")
		}
	}
	// KahnSort works on a copy: the graph itself is unchanged
	for i := 0; i < n; i++ {
		for j := 0; j < n; j++ {
			_, ok := g.adjacencyOut[i][j]
			vnAssert(ok == m.e[i][j], "C20.kahn-leaves-graph-intact")
		}
	}
	// --- StronglyConnected
	sccs := g.StronglyConnected()
	var comp [c20Max]int
	var seen [c20Max]int
	for ci, c := range sccs {
		vnAssert(len(c) > 0, "C20.scc-nonempty-component")
		for _, v := range c {
			i, ok := v.(int)
			vnAssert(ok, "C20.scc-vertex-type")
			if ok {
				comp[i] = ci
				seen[i]++
			}
		}
	}
	for i := 0; i < n; i++ {
		vnAssert(seen[i] == 1, "C20.scc-partition")
	}
	for i := 0; i < n; i++ {
		for j := 0; j < n; j++ {
			if seen[i] != 1 || seen[j] != 1 {
				continue
			}
			mutual := i == j || (m.reach[i][j] && m.reach[j][i])
			vnAssert((comp[i] == comp[j]) == mutual, "C20.scc-classes-are-mutual-reachability")
		}
	}
	// Cycles() = the components with more than one vertex
	big := 0
	for _, c := range sccs {
		if len(c) > 1 {
			big++
		}
	}
	vnAssert(len(g.Cycles()) == big, "C20.cycles-are-the-nontrivial-components")
	vnTrace(fmt.Sprintf("sccs=%d cyclic=%v", len(sccs), panicked))
	vnCover("C20.scc-checked")
}

func c20Topo(n int) {
	g, m := c20Build(n, 0, true)
	if m.cyclic() {
		vnAssume(false)
	}
	root, roots := -1, 0
	for j := 0; j < n; j++ {
		indeg := 0
		for i := 0; i < n; i++ {
			if m.e[i][j] {
				indeg++
			}
		}
		if indeg == 0 {
			root = j
			roots++
		}
	}
	if roots != 1 {
		vnAssume(false)
	}
	vnNote(fmt.Sprintf("Topo n=%d root=%d edges: %s", n, root, m.desc))
	order := g.KahnSort()
	vnAssert(len(order) == n, "C20.kahn-lists-every-vertex")
	if len(order) != n {
		return
	}
	vnAssert(order[0] == interface{}(root), "C20.kahn-starts-at-the-root")
	td, te := g.TopoShortestPath(order)
	dd, _ := g.Dijkstra(root)
	for v := 0; v < n; v++ {
		if v == root {
			continue
		}
		tv, ok := td[v]
		vnAssert(ok, "C20.topo-reaches-every-vertex")
		vnAssert(tv == dd[v], "C20.topo-agrees-with-dijkstra")
		p, pok := te[v].(int)
		vnAssert(pok, "C20.topo-predecessor-is-a-vertex")
		if pok {
			vnAssert(m.e[p][v], "C20.topo-predecessor-edge-exists")
			pd := 0
			if p != root {
				pd = td[p]
			}
			vnAssert(tv == pd+m.w[p][v], "C20.topo-distance-consistent-with-predecessor")
		}
		vnTraceInt(fmt.Sprintf("topo[%d]", v), tv)
		vnCover("C20.topo-vertex-checked")
	}
	vnCover("C20.topo-checked")
}
