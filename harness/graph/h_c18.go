//go:build verif

package graph

import "fmt"

// C18 — shortest-path search returns exact distances and real paths.
//
// n      number of vertices (ids 0..n-1, source 0)
// mode   0: all n*n edges (self-loops included) have symbolic presence
//
//	1: complete graph without self-loops
//	2: the n*(n-1) non-loop edges have symbolic presence
//
// wset   0: weights symbolic in [0, vnC18W]   (N*W < 2^31-1: distances representable)
//
//	1: weights drawn symbolically from the resolver's set {-1,1,5,20}; only the
//	   structural clauses (acyclic predecessor chains made of real edges) are asserted
//	2: weights symbolic in [0, 2^31-1-? ] near the int32 boundary, at most one edge on a path heavy
//
// sched  0: insertion order everywhere
//
//	1: perm(3) at the queue-filling and relaxation ranges, flip elsewhere
//	2: rot x flip per site
//	3: one independent flip per site
//	4: seeded random permutation per range instance
const vnC18W = 1000000

func HarnessC18(n, mode, wset, sched int) { harnessC18(n, mode, wset, sched, 0) }

// HarnessC18Hist — the search must also be exact on a graph that was searched
// before and then mutated (one symbolic RemoveEdge / AddEdgeWeighted, also through
// a reversed view), i.e. no stale state may survive between searches.
func HarnessC18Hist(n, mode, wset, sched int) { harnessC18(n, mode, wset, sched, 1) }

func harnessC18(n, mode, wset, sched, hist int) {
	switch sched {
	case 1:
		vnScheduleDefault(vnFlip, 0)
		vnSchedule("Graph.Dijkstra#0", vnPerm, 3)
		vnSchedule("Graph.Dijkstra#1", vnPerm, 3)
	case 2:
		vnScheduleDefault(vnFlip, 0)
		vnSchedule("Graph.Dijkstra#0", vnRot, n)
		vnSchedule("Graph.Dijkstra#1", vnRot, n)
	case 3:
		vnScheduleDefault(vnFlip, 0)
	case 4:
		vnScheduleDefault(vnSeeded, 0)
		vnScheduleSeed(1)
	}
	var g Graph
	for i := 0; i < n; i++ {
		g.Add(i)
	}
	var w [8][8]int
	var present [8][8]bool
	desc := ""
	// mode 3: a star from the source plus two edges with symbolic endpoints (deep heaps
	// at a path count that stays affordable for n = 6, 7)
	var extra [8][8]bool
	if mode == 3 {
		for k := 0; k < 2; k++ {
			a := c18ids8[vnChoice("xa", n-1, k)+1]
			b := c18ids8[vnChoice("xb", n-1, k)+1]
			if a != b {
				extra[a][b] = true
			}
		}
	}
	for i := 0; i < n; i++ {
		for j := 0; j < n; j++ {
			if i == j && mode != 0 {
				continue
			}
			if mode == 3 {
				if !(i == 0 || extra[i][j]) {
					continue
				}
			} else if mode != 1 {
				if !vnBool("e", i, j) {
					continue
				}
			}
			switch wset {
			case 0:
				w[i][j] = vnInt("w", i, j)
				vnAssume(0 <= w[i][j])
				vnAssume(w[i][j] <= vnC18W)
			case 1:
				k := vnChoice("wk", 4, i, j)
				w[i][j] = vnIte(k == 0, -1, vnIte(k == 1, 1, vnIte(k == 2, 5, 20)))
			case 2:
				w[i][j] = vnInt("w", i, j)
				vnAssume(0 <= w[i][j])
				vnAssume(w[i][j] <= 2147483647/n)
			}
			present[i][j] = true
			g.AddEdgeWeighted(i, j, w[i][j])
			desc += fmt.Sprintf("%d>%d ", i, j)
		}
	}
	vnNote(fmt.Sprintf("n=%d mode=%d wset=%d sched=%d edges: %s", n, mode, wset, sched, desc))

	c18Oracle(&g, n, wset, &present, &w, "C18")
	if hist == 0 {
		return
	}
	// one symbolic mutation, then search again
	a, b := c18ids[vnChoice("ma", n)], c18ids[vnChoice("mb", n)]
	if a == b && mode != 0 {
		vnAssume(false)
	}
	via := &g
	if vnBool("viaReverse") {
		// mutate through a reversed view (shares state): edge b->a of the view is a->b of g
		via = g.Reverse()
		a, b = b, a
	}
	switch c18ids[vnChoice("mutation", 3)] {
	case 0:
		via.RemoveEdge(a, b)
		if via != &g {
			present[b][a] = false
		} else {
			present[a][b] = false
		}
		vnNoteAppend(fmt.Sprintf("| then RemoveEdge(%d,%d) viaReverse=%v", a, b, via != &g))
	case 1:
		nw := vnInt("nw")
		vnAssume(0 <= nw)
		vnAssume(nw <= vnC18W)
		via.AddEdgeWeighted(a, b, nw)
		if via != &g {
			present[b][a] = true
			w[b][a] = nw
		} else {
			present[a][b] = true
			w[a][b] = nw
		}
		vnNoteAppend(fmt.Sprintf("| then AddEdgeWeighted(%d,%d,nw) viaReverse=%v", a, b, via != &g))
	default:
		// a vertex is removed (all its edges go) and added again
		via.Remove(a)
		via.Add(a)
		for k := 0; k < n; k++ {
			present[a][k] = false
			present[k][a] = false
		}
		vnNoteAppend(fmt.Sprintf("| then Remove(%d); Add(%d) viaReverse=%v", a, a, via != &g))
	}
	c18Oracle(&g, n, wset, &present, &w, "C18.after-mutation")
	vnCover("C18.search-after-mutation-checked")
}

var c18ids = [8]int{0, 1, 2, 3, 4, 5, 6, 7}
var c18ids8 = [8]int{0, 1, 2, 3, 4, 5, 6, 7}

func c18Oracle(g *Graph, n, wset int, presentP *[8][8]bool, wP *[8][8]int, tag string) {
	present, w := *presentP, *wP
	dist, edgeTo := g.Dijkstra(0) // the real code

	// reachability from 0 (presence is concrete on each path)
	var reach [8]bool
	reach[0] = true
	for round := 0; round < n; round++ {
		for i := 0; i < n; i++ {
			for j := 0; j < n; j++ {
				if present[i][j] && reach[i] {
					reach[j] = true
				}
			}
		}
	}

	// predecessor of each vertex (-1: none)
	var pred [8]int
	for v := 0; v < n; v++ {
		pred[v] = -1
		if p := edgeTo[v]; p != nil {
			pi, ok := p.(int)
			vnAssert(ok, tag+".pred-is-vertex")
			if ok {
				vnAssert(0 <= pi && pi < n, tag+".pred-in-range")
				pred[v] = pi
			}
		}
	}

	// (v) predecessor chains are acyclic and made of existing edges
	for v := 0; v < n; v++ {
		cur, steps := v, 0
		for pred[cur] >= 0 && steps <= n {
			vnAssert(present[pred[cur]][cur], tag+".pred-edge-exists")
			cur = pred[cur]
			steps++
		}
		vnAssert(steps <= n, tag+".pred-chain-acyclic")
		if steps > n {
			return
		}
		if reach[v] {
			// (iii) the chain of a reached vertex ends at the source
			vnAssert(cur == 0, tag+".reached-chain-ends-at-source")
		} else {
			// (iv) the chain of an unreached vertex never arrives at the source
			vnAssert(cur != 0, tag+".unreached-chain-avoids-source")
		}
	}
	vnCover("C18.structure-checked")
	if wset == 1 {
		return
	}

	// (i) the source is at distance 0
	vnAssert(dist[0] == 0, tag+".source-distance-zero")
	// (ii) no tense edge among reached vertices: dist[v] <= dist[u] + w(u,v)
	for u := 0; u < n; u++ {
		for v := 0; v < n; v++ {
			if present[u][v] && reach[u] {
				vnAssert(dist[v] <= dist[u]+w[u][v], tag+".no-tense-edge")
			}
		}
	}
	// (iii) the witness path's weights sum to the reported distance
	for v := 1; v < n; v++ {
		if !reach[v] {
			continue
		}
		sum, cur := 0, v
		for pred[cur] >= 0 {
			sum += w[pred[cur]][cur]
			cur = pred[cur]
		}
		vnAssert(sum == dist[v], tag+".witness-path-sums-to-distance")
		vnTraceInt(fmt.Sprintf("dist[%d]", v), dist[v])
		vnCover("C18.reached-vertex-checked")
	}
	// EdgeToPath on a reached vertex returns the witness path in source-to-target order
	for v := 1; v < n; v++ {
		if !reach[v] {
			continue
		}
		path := g.EdgeToPath(v, edgeTo)
		vnAssert(len(path) >= 2, tag+".path-nonempty")
		if len(path) >= 2 {
			vnAssert(path[0] == 0, tag+".path-starts-at-source")
			vnAssert(path[len(path)-1] == v, tag+".path-ends-at-target")
			for k := 0; k+1 < len(path); k++ {
				a, aok := path[k].(int)
				b, bok := path[k+1].(int)
				if aok && bok {
					vnAssert(present[a][b], tag+".path-edge-exists")
				} else {
					vnAssert(false, tag+".path-vertex-type")
				}
			}
		}
	}
	vnCover("C18.oracle-complete")
}

// hQuietLogs: see the argmapper harness; the graph package does not log.
func hQuietLogs() {}
