#!/usr/bin/env python3
# Regenerates Appendix B of DESIGN.md from /verif/seeded/*/meta.json and tools/seed_notes.json
import json, glob, os, re
V = os.path.dirname(os.path.dirname(os.path.abspath(__file__)))
notes = json.load(open(os.path.join(V, 'tools', 'seed_notes.json')))
rows = []
caught = total = 0
for d in sorted(glob.glob(os.path.join(V, 'seeded', '*'))):
    m = json.load(open(d + '/meta.json'))
    n = m['name']
    ran = {r['check']: r['verdict'] for r in m['ran'] if r['tier'] == 'quick'}
    thor = [r for r in m['ran'] if r['tier'] != 'quick' and r['verdict'] == 'caught']
    v = ran.get(m['breaks_property'], '?')
    if thor and v != 'caught':
        v += ' by quick, caught by thorough'
    total += 1
    caught += v == 'caught'
    others = [k for k in ran if k != m['breaks_property'] and ran[k] == 'caught']
    nt = notes.get(n, {'what': '', 'how': ''})
    rows.append("| %s | %s | **%s**%s — %s |" % (n, nt['what'], v, (' (also %s)' % ', '.join(others)) if others else '', nt['how']))
head = """## Appendix B. Seeded changes: which checks catch which

%d changes were written by independent sub-agents in nine rounds (two per property and round; rounds 3 and 4 asked for order-dependent, multi-step, concurrent and cooperating-site changes, rounds 5 to 9 for changes unlike the families already seen), each agent given only the property's text and a scratch worktree (nothing from /verif). Each was validated by `tools/seed.py` in a scratch worktree of /repo's HEAD at the time: the patch applies, the 79 existing tests pass with it, the agent's demonstration fails with it and passes without it. They are kept as `/verif/seeded/<id>-m<k>/{patch.diff, demo_test.go, description.txt, meta.json}` (meta.json records the repo commit the patch was validated against). The table gives the verdict of the **quick check of the targeted property** run with `VERIF_REPO` pointing at the mutated scratch copy (exit 1 + natively replayed VIOLATION = caught). First-shot detection was 8/16 (round 1), 10/24 (round 2), 17/28 (round 3), 5/12 (round 4) about 8/20 (round 5), 11/20 (round 6) and 15/20 (round 7, three of them through `HarnessShapes`, written from the agents' descriptions while their changes were still being validated) 12/20 (round 8) and 14/20 (round 9, two of them through `HarnessShapes` kinds written from the descriptions); every miss was analysed and the harness families were generalised (third column) rather than special-cased.

| seeded change | what it does | verdict now · what catches it / what had to be added |
|---|---|---|
""" % total
tail = """
Totals: %d of %d caught by the targeted property's quick check. Not caught by the targeted check: C10-m5 and C10-m7 (they break C19/C07 and C05, whose quick checks catch them, but not the agreement C10 states), C10-m8 (argued to violate no listed property, see its row), C02-m1 (the C01 table puts no subtype condition on interface implementation, so the world is derivable under the table; the original refuses, the mutant accepts, both inside it) and C18-m3 (needs six vertices; outside the quick bound). Four early changes (C09-m2, C09-m3, C09-m5, C06-m4) rewrite the part of `redefineInputs` that the later repairs R and S touch and no longer apply to /repo's HEAD; they are kept with the verdict and the commit (`repo_head` in meta.json) they were validated against. All other rows were re-run against the final tree (`tools/seed.py --fast`). Several agents' changes revert earlier repairs (C11-m2 and C17-m2 revert fix N, C08-m1/C08-m3 half of fix G): the checks that found the original defects catch their return, as a `fixed:` entry requires.
""" % (caught, total)
p = os.path.join(V, 'DESIGN.md')
s = open(p).read()
i = s.index("## Appendix B. Seeded changes")
s = s[:i] + head + "\n".join(rows) + "\n" + tail
open(p, 'w').write(s)
print(caught, total)
