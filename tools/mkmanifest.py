#!/usr/bin/env python3
# Regenerates /verif/MANIFEST.json from the table below (claimed checks) + properties.jsonl (not_applicable for the rest).
import json, os
V = os.path.dirname(os.path.dirname(os.path.abspath(__file__)))
props = [json.loads(l) for l in open(os.path.join(V, 'properties.jsonl'))]
claimed = json.load(open(os.path.join(V, 'tools', 'claims.json')))
na = json.load(open(os.path.join(V, 'tools', 'not_applicable.json')))
checks = []
for p in props:
    c = claimed.get(p['id'])
    if not c:
        continue
    checks.append({
        "property_id": p['id'],
        "quick_cmd": "./check %s quick" % p['id'],
        "thorough_cmd": "./check %s thorough" % p['id'],
        "evidence_file": "/verif/evidence/%s.json" % p['id'],
        "replay_cmd_template": "./bin/gose replay {path}",
        "engine": "gose",
        "level_claimed": {"category": "model_checking", "text": c['text'], "design_ref": c.get('design_ref', 'DESIGN.md section 5 ' + p['id'])},
        "level_note": c['note'],
        "technique": c.get('technique', "bounded symbolic execution of the real code's go/ssa + SMT (z3): solver decides path feasibility and discharges each assertion as PC AND NOT property"),
    })
m = {
    "version": 1,
    "setup_cmd": "cd /verif/engine && GOFLAGS=-mod=mod GOPROXY=off GOSUMDB=off GOTOOLCHAIN=local go build -o ../bin/gose ./cmd/gose",
    "hooks": {"guard": "verif", "enable": "harnesses enter through go/packages overlays (symbolic run) and go test -overlay -tags verif (native replay); no hook code lives in /repo",
              "baseline_off_cmd": "cd /repo && go test -vet=off -count=1 ./...", "source_commits": [], "add_only": True},
    "engines": [{"name": "gose", "path": "/verif/engine", "serves_properties": sorted(claimed.keys()),
                 "kind_free_text": "symbolic executor for go/ssa built from /repo's working tree on every run; SMT solver (z3 4.8.12 over a pipe, push/pop) decides branch feasibility and assertions; counterexamples replayed natively"}],
    "checks": checks,
    "not_applicable": [{"property_id": p['id'], "reason": na.get(p['id'], "check not built yet (work in progress; see DESIGN.md section 5)")} for p in props if p['id'] not in claimed],
    "notes": "exit 0 = held within the stated bounds; exit 1 + VIOLATION line = natively replayed counterexample; exit 3 + INCONCLUSIVE = engine limitation/solver unknown/vacuity (never reported as success). Known findings: /verif/known_findings.json.",
}
json.dump(m, open(os.path.join(V, 'MANIFEST.json'), 'w'), indent=1)
print("claimed:", sorted(claimed.keys()))
