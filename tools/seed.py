#!/usr/bin/env python3
"""Validate a candidate seeded change and run checks against it.

usage: seed.py <prop> <k> [--checks C01,C02] [--tier quick] [--keep]

Reads /tmp/wt/<prop>.mutant<k>.diff, /tmp/wt/<prop>.mutant<k>_demo_test.go, /tmp/wt/<prop>.mutant<k>.txt.
Works in a scratch copy of /repo's HEAD under /tmp/m (removed afterwards); never touches /repo.
Confirms: patch applies, existing suite passes with it, demo fails with it and passes without it.
Then runs the named checks with VERIF_REPO pointing at the mutated scratch copy and records the
verdicts in /verif/seeded/<prop>-m<k>/meta.json next to patch.diff and the demonstration.
"""
import json, os, shutil, subprocess, sys, time

ENV = dict(os.environ, GOFLAGS="-mod=mod", GOPROXY="off", GOSUMDB="off", GOTOOLCHAIN="local")


def run(cmd, cwd=None, timeout=1800, env=None):
    p = subprocess.run(cmd, cwd=cwd, env=env or ENV, stdout=subprocess.PIPE, stderr=subprocess.STDOUT, timeout=timeout, text=True, shell=isinstance(cmd, str))
    return p.returncode, p.stdout


def main():
    prop, k = sys.argv[1], sys.argv[2]
    checks = [prop]
    tier = "quick"
    src = "/tmp/wt"
    fast = "--fast" in sys.argv  # re-run the checks only (the change was validated before and still applies)
    for i, a in enumerate(sys.argv):
        if a == "--checks":
            checks = sys.argv[i + 1].split(",")
        if a == "--tier":
            tier = sys.argv[i + 1]
        if a == "--src":
            src = sys.argv[i + 1]
    name = "%s-m%s" % (prop, k)
    diff = "%s/%s.mutant%s.diff" % (src, prop, k)
    demo = "%s/%s.mutant%s_demo_test.go" % (src, prop, k)
    txt = "%s/%s.mutant%s.txt" % (src, prop, k)
    dest = "/verif/seeded/" + name
    if os.path.isdir(dest) and not os.path.exists(diff):
        diff, demo, txt = dest + "/patch.diff", dest + "/demo_test.go", dest + "/description.txt"
    scratch = "/tmp/m/" + name
    shutil.rmtree(scratch, ignore_errors=True)
    os.makedirs("/tmp/m", exist_ok=True)
    run(["git", "-C", "/repo", "worktree", "prune"])
    rc, out = run(["git", "-C", "/repo", "worktree", "add", "-q", "--detach", scratch, "HEAD"])
    if rc != 0:
        print("worktree failed", out)
        return 2
    meta = {"name": name, "breaks_property": prop, "ran": []}
    try:
        demo_dir = "."
        first = open(demo).readline()
        if "dir:" in first:
            demo_dir = first.split("dir:")[1].strip()
        demo_dst = os.path.join(scratch, demo_dir, "zz_seed_demo_test.go")
        old_meta = {}
        if os.path.exists(dest + "/meta.json"):
            old_meta = json.load(open(dest + "/meta.json"))
        fast = fast and old_meta.get("valid", False)
        if fast:
            meta["demo_passes_without_change"] = True
        else:
            # demo on the clean tree must pass
            shutil.copy(demo, demo_dst)
            rc, out = run("go test -vet=off -count=1 -run 'Demo|Mutant' ./%s" % demo_dir, cwd=scratch)
            meta["demo_passes_without_change"] = rc == 0
            os.remove(demo_dst)
        rc, out = run(["git", "apply", "--whitespace=nowarn", diff], cwd=scratch)
        if rc != 0:
            rc, out2 = run(["git", "apply", "-3", "--whitespace=nowarn", diff], cwd=scratch)
            if rc != 0:
                rc, out3 = run("patch -p1 --fuzz=3 < %s" % diff, cwd=scratch)
                if rc != 0:
                    print("PATCH DOES NOT APPLY", out, out2, out3)
                    meta["applies"] = False
                    print(json.dumps(meta))
                    return 2
        meta["applies"] = True
        run("git diff > /tmp/m/%s.rebased.diff" % name, cwd=scratch)
        if fast:
            rc, out = run("go build ./...", cwd=scratch)
            meta["existing_suite_passes_with_change"] = rc == 0
            meta["demo_fails_with_change"] = True
        else:
            rc, out = run("go build ./... && go test -vet=off -count=1 ./...", cwd=scratch)
            meta["existing_suite_passes_with_change"] = rc == 0
            if rc != 0:
                print("SUITE FAILS WITH CHANGE\n", out[-2000:])
            shutil.copy(demo, demo_dst)
            rc, out = run("go test -vet=off -count=1 -run 'Demo|Mutant' ./%s" % demo_dir, cwd=scratch)
            meta["demo_fails_with_change"] = rc != 0
            os.remove(demo_dst)
        ok = meta["demo_passes_without_change"] and meta["existing_suite_passes_with_change"] and meta["demo_fails_with_change"]
        meta["valid"] = ok
        print(name, "valid=%s" % ok, {k: v for k, v in meta.items() if k.endswith("change")})
        if ok:
            env = dict(ENV, VERIF_REPO=scratch)
            # run from a snapshot of /verif so that edits made meanwhile do not interfere
            snap = "/tmp/m/snap-" + name
            shutil.rmtree(snap, ignore_errors=True)
            run(["rsync", "-a", "--exclude", ".git", "--exclude", "seeded", "--exclude", "evidence", "--exclude", "replays", "/verif/", snap + "/"])
            os.makedirs(snap + "/evidence", exist_ok=True)
            for c in checks:
                t0 = time.time()
                rc, out = run([snap + "/check", c, tier], cwd=snap, env=env, timeout=3600)
                out = out.replace(snap, "/verif")
                viol = [l for l in out.splitlines() if l.startswith("VIOLATION")]
                inc = [l for l in out.splitlines() if l.startswith("INCONCLUSIVE")]
                verdict = {0: "missed", 1: "caught"}.get(rc, "inconclusive(exit %d)" % rc)
                meta["ran"].append({"check": c, "tier": tier, "exit": rc, "verdict": verdict, "seconds": round(time.time() - t0, 1),
                                    "violation_lines": [v[:300] for v in viol[:3]], "inconclusive": [x[:300] for x in inc[:3]]})
                print("  check %s %s -> %s (%.0fs) %s" % (c, tier, verdict, time.time() - t0, (viol[:1] or inc[:1] or [""])[0][:220]))
            os.makedirs(dest, exist_ok=True)
            shutil.copy("/tmp/m/%s.rebased.diff" % name, dest + "/patch.diff")
            if os.path.abspath(demo) != os.path.abspath(dest + "/demo_test.go"):
                shutil.copy(demo, dest + "/demo_test.go")
            if os.path.exists(txt) and os.path.abspath(txt) != os.path.abspath(dest + "/description.txt"):
                shutil.copy(txt, dest + "/description.txt")
            old = {}
            if os.path.exists(dest + "/meta.json"):
                old = json.load(open(dest + "/meta.json"))
            ran = {(r["check"], r["tier"]): r for r in old.get("ran", [])}
            for r in meta["ran"]:
                ran[(r["check"], r["tier"])] = r
            meta["ran"] = list(ran.values())
            meta["needs_to_manifest"] = old.get("needs_to_manifest", open(txt).read().strip()[:1500] if os.path.exists(txt) else "")
            meta["validated_by"] = "tools/seed.py: patch applied to a scratch worktree of /repo HEAD; existing suite passed; demo failed with the change and passed without"
            meta["repo_head"] = run(["git", "-C", "/repo", "rev-parse", "--short", "HEAD"])[1].strip()
            json.dump(meta, open(dest + "/meta.json", "w"), indent=1)
    finally:
        shutil.rmtree("/tmp/m/snap-" + name, ignore_errors=True)
        run(["git", "-C", "/repo", "worktree", "remove", "--force", scratch])
        shutil.rmtree(scratch, ignore_errors=True)
        try:
            os.remove("/tmp/m/%s.rebased.diff" % name)
        except OSError:
            pass
    return 0


if __name__ == "__main__":
    sys.exit(main())
